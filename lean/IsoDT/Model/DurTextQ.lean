/-
  IsoDT.Model.DurTextQ — executable model of the text forms of `Duration` with DECIMAL hours /
  minutes / seconds (C10, C09):

    * `toTextQ`  : `Duration.__str__` (data.py) over `DurationQ` (whole years/months/days/weeks,
                   rational hours/minutes/seconds);
    * `parseQ`   : `DurationParser.parse` (parsers.py): leading `-` sign factor, the three
                   regenerated `DURATION_REGEXES` run by the backtracking matcher `Re.run` of
                   `Model.DurText` (structural recursion, no fuel), `int(...)` of the year / month /
                   day / week groups, `float(value.replace(",", "."))` of the hour / minute / second
                   groups, `Duration(**result_map)`, and the date-time-like alternative (delegated
                   to `DurText.altPath`).

  Python floats are not modelled.  The two places where the code hands a float to CPython are
  PARAMETERS of the model:

    * `reprF : Rat → List Char`  — what `str(x)` prints for the float `x` holding that value
      (`__str__` calls it exactly when `int(prop_val) != prop_val`);
    * `readF : List Char → FR`   — what `float(text)` answers: the exact value of the resulting
      float, `inf` (decimal overflow: `float("1e999")`, a digit run of 310 digits), or `err`
      (`ValueError`).

  CPython ≥ 3.11 also refuses `int(text)` / `str(int)` beyond `sys.get_int_max_str_digits()`
  decimal digits (4300 by default, `ValueError`; 0 = no limit): parameter `lim`.

  The second half of the file gives CONCRETE functions for the driver: `pyFloat` (CPython's
  `float(str)` grammar on ASCII text — white space, underscores, exponent — followed by correct
  rounding to binary64) and `reprPy` (`repr(float)` for values with a terminating decimal expansion:
  the exact expansion, in CPython's plain / exponent layout; that is what CPython prints whenever the
  expansion has at most 15 significant digits).  Proof-free.
-/
import IsoDT.Model.DurText
import IsoDT.Model.DurationQ

namespace IsoDT.Model.DurTextQ
open IsoDT IsoDT.Model IsoDT.Model.DurText IsoDT.Gen

/-- Outcome of `float(text)`: a finite value, `inf`, or `ValueError`. -/
inductive FR where
  | val (q : Rat)
  | inf
  | err
  deriving DecidableEq, Repr, Inhabited

/-! ### `Duration.__str__` -/

/-- The slots `__str__` walks, `None` slots skipped (`__slots__` order). -/
def compsQ : DurationQ → List Rat
  | .weeks w => [(w : Rat)]
  | .units y mo d h mi s => [(y : Rat), (mo : Rat), (d : Rat), h, mi, s]

/-- The loop computing `is_fully_negative`. -/
def fullyNegLoopQ : List Rat → Bool → Bool
  | [], acc => acc
  | v :: vs, acc => if v > 0 then false else if v < 0 then fullyNegLoopQ vs true else fullyNegLoopQ vs acc

/-- `str(int(prop_val))` if `int(prop_val) == prop_val` else `str(prop_val)`. -/
def numText (reprF : Rat → List Char) (v : Rat) : List Char :=
  if v.den = 1 then intText v.num else reprF v

/-- One pass of the unit loop for an hours / minutes / seconds slot (`if prop_val:`). -/
def unitPartQ (reprF : Rat → List Char) (v : Rat) (u : Char) : List Char :=
  if v ≠ 0 then numText reprF v ++ [u] else []

/-- `__str__` from the week-form test on (the value is truthy and not fully negative). -/
def toTextPosQ (reprF : Rat → List Char) : DurationQ → List Char
  | .weeks w => replaceDot ('P' :: (intText w ++ ['W']))
  | .units y mo d h mi s =>
    replaceDot ('P' :: stripT (unitPart y 'Y' ++ unitPart mo 'M' ++ (unitPart d 'D' ++ ['T']) ++
      unitPartQ reprF h 'H' ++ unitPartQ reprF mi 'M' ++ unitPartQ reprF s 'S'))

/-- `Duration.__str__`.  For a fully negative value the Python returns `"-" + str(abs(self))`;
    `abs(self)` is truthy and has no negative slot, so that call takes the last branch. -/
def toTextQ (reprF : Rat → List Char) (d : DurationQ) : List Char :=
  if !d.nonzero then ['P', '0', 'Y']
  else if fullyNegLoopQ (compsQ d) false then '-' :: toTextPosQ reprF d.abs
  else toTextPosQ reprF d

/-- `str(z)` of an `int` stays within the interpreter's digit limit (`lim = 0`: no limit). -/
def intTextOk (lim : Nat) (z : Int) : Bool := lim == 0 || (natDigits z.natAbs).length ≤ lim

/-- A time slot is printed through `str(int(v))` only when it is whole. -/
def slotOk (lim : Nat) (v : Rat) : Bool := v.den != 1 || intTextOk lim v.num

/-- No `str(int)` inside `__str__` exceeds the digit limit. -/
def strOk (lim : Nat) : DurationQ → Bool
  | .weeks w => intTextOk lim w
  | .units y mo d h mi s =>
    intTextOk lim y && intTextOk lim mo && intTextOk lim d && slotOk lim h && slotOk lim mi && slotOk lim s

/-- `str(d)` under the digit limit: `none` = the `ValueError` of `str(int)`. -/
def toTextQ? (lim : Nat) (reprF : Rat → List Char) (d : DurationQ) : Option (List Char) :=
  if strOk lim d then some (toTextQ reprF d) else none

/-! ### `DurationParser.parse` -/

/-- Result of `parse`: a `Duration` with finite slots, a `Duration` with an infinite hours /
    minutes / seconds slot (`float` overflowed: `PT1e999H`, or a digit run of 310 digits; the
    constructor accepts it, `str()` of the result raises `OverflowError`; this model does not follow
    it further), `ISO8601SyntaxError`, `ValueError` (of `float()`, `int()`, or the two-`T`
    unpacking), or outside the model (non-ASCII input; date-time-like spellings other than the four
    complete forms). -/
inductive PRQ where
  | ok (d : DurationQ)
  | okInf
  | syntaxErr
  | valueErr
  | outside
  deriving DecidableEq, Repr

/-- `.replace(",", ".")`. -/
def replaceComma (s : List Char) : List Char := s.map fun c => if c = ',' then '.' else c

/-- Outcome of `int(value)`. -/
inductive IV where
  | absent | val (n : Nat) | bad | out
  deriving DecidableEq, Repr

/-- `int(value)` (years, months, days, weeks): the regex hands over a non-empty run of ASCII digits
    (anything else is answered `out`); beyond the digit limit CPython raises `ValueError`. -/
def intFieldQ (lim : Nat) : Option (List Char) → IV
  | none => .absent
  | some ds =>
    if ds ≠ [] ∧ ds.all isDig then
      (if lim ≠ 0 ∧ lim < ds.length then .bad else .val (digitsVal ds))
    else .out

/-- The keyword arguments collected for `Duration(**result_map)` (absent = the default 0), and
    whether some float slot is infinite. -/
structure Acc where
  fi : Fields
  fq : DUnit → Rat
  inf : Bool

def Acc.zero : Acc := ⟨Fields.zero, fun _ => 0, false⟩
def Acc.setI (a : Acc) (n : DUnit) (v : Int) : Acc := { a with fi := a.fi.set n v }
def Acc.setQ (a : Acc) (n : DUnit) (v : Rat) : Acc := { a with fq := fun x => if x = n then v else a.fq x }

/-- The loop over `result_map.items()` (group order); the first failing conversion decides. -/
def convertQ (lim : Nat) (readF : List Char → FR) (sg : Int) (cp : Caps) : List DUnit → Acc → Except PRQ Acc
  | [], a => .ok a
  | n :: ns, a =>
    if DUnit.isIntKey n then
      match intFieldQ lim (cp n) with
      | .absent => convertQ lim readF sg cp ns a
      | .val v => convertQ lim readF sg cp ns (a.setI n ((v : Int) * sg))
      | .bad => .error .valueErr
      | .out => .error .outside
    else
      match cp n with
      | none => convertQ lim readF sg cp ns a
      | some t =>
        -- if "," in value: value = value.replace(",", "."); value = float(value)
        match readF (replaceComma t) with
        | .val q => convertQ lim readF sg cp ns (a.setQ n (q * (sg : Rat)))
        | .inf => convertQ lim readF sg cp ns { a with inf := true }
        | .err => .error .valueErr

/-- `Duration(**result_map)`. -/
def Acc.toDur (m : Mode) (a : Acc) : DurationQ :=
  DurationQ.mk m (a.fi .years) (a.fi .months) (a.fi .weeks) (a.fi .days) (a.fq .hours) (a.fq .minutes)
    (a.fq .seconds)

/-- The date-time-like fallback, as far as `DurText.altPath` follows it (whole seconds). -/
def ofPR : PR → PRQ
  | .ok d => .ok (DurationQ.ofDur d)
  | .syntaxErr => .syntaxErr
  | .valueErr => .valueErr
  | .outside => .outside

/-- `parse` after the sign has been split off. -/
def parseBodyQ (lim : Nat) (readF : List Char → FR) (m : Mode) (sg : Int) (e : List Char) : PRQ :=
  match firstMatch durRegexes e with
  | some (gs, cp) =>
    match convertQ lim readF sg cp gs Acc.zero with
    | .ok a => if a.inf then .okInf else .ok (a.toDur m)
    | .error r => r
  | none =>
    match e with
    | 'P' :: rest => if sg = 1 then ofPR (altPath m rest) else .syntaxErr
    | _ => .syntaxErr

/-- `DurationParser.parse(expression)`. -/
def parseQ (lim : Nat) (readF : List Char → FR) (m : Mode) (s : List Char) : PRQ :=
  if s.any (fun c => 128 ≤ c.toNat) then .outside
  else
    match s with
    | '-' :: e => parseBodyQ lim readF m (-1) e
    | _ => parseBodyQ lim readF m 1 s

/-! ### concrete `float(text)`: CPython's grammar and correct rounding to binary64 -/

/-- C `isspace` on ASCII (what `float` strips): `\t \n \v \f \r` and space. -/
def isWs (c : Char) : Bool := (9 ≤ c.toNat && c.toNat ≤ 13) || c.toNat == 32

/-- Strip trailing white space. -/
def dropTrailWs : List Char → List Char
  | [] => []
  | c :: cs =>
    match dropTrailWs cs with
    | [] => if isWs c then [] else [c]
    | r => c :: r

/-- `s.strip()` as `float` does it. -/
def stripWs (s : List Char) : List Char := dropTrailWs (s.dropWhile isWs)

/-- `_Py_string_to_number_with_underscores`: an underscore is allowed only between two digits;
    the underscores are removed. -/
def deUnderscore : Char → List Char → Option (List Char)
  | prev, [] => if prev = '_' then none else some []
  | prev, c :: cs =>
    if c = '_' then (if isDig prev then deUnderscore c cs else none)
    else if prev = '_' ∧ !isDig c then none
    else (deUnderscore c cs).map (c :: ·)

/-- A decimal literal `[sign] digits [. digits] [e [sign] digits]`. -/
structure DecLit where
  neg : Bool
  ip : List Char
  fp : List Char
  exp : Int
  deriving Repr

def takeSign : List Char → Bool × List Char
  | '-' :: t => (true, t)
  | '+' :: t => (false, t)
  | s => (false, s)

/-- The grammar of `_Py_dg_strtod` (no `inf` / `nan` words: a captured group starts with a digit),
    the whole string consumed. -/
def parseDecLit (s : List Char) : Option DecLit :=
  let (neg, s) := takeSign s
  let ip := s.takeWhile isDig
  let s := s.dropWhile isDig
  let (fp, s) : List Char × List Char :=
    match s with
    | '.' :: t => (t.takeWhile isDig, t.dropWhile isDig)
    | _ => ([], s)
  if ip = [] ∧ fp = [] then none
  else
    match s with
    | [] => some ⟨neg, ip, fp, 0⟩
    | c :: t =>
      if c = 'e' ∨ c = 'E' then
        let (eneg, t) := takeSign t
        if t ≠ [] ∧ t.all isDig then
          some ⟨neg, ip, fp, if eneg then -(digitsVal t : Int) else (digitsVal t : Int)⟩
        else none
      else none

/-- `2^e` as a rational. -/
def pow2 (e : Int) : Rat := if 0 ≤ e then ((2 ^ e.toNat : Nat) : Rat) else mkRat 1 (2 ^ (-e).toNat)

/-- `10^e` as a rational. -/
def pow10 (e : Int) : Rat := if 0 ≤ e then ((10 ^ e.toNat : Nat) : Rat) else mkRat 1 (10 ^ (-e).toNat)

/-- Largest `e` with `2^e ≤ q`, for `q > 0`. -/
def floorLog2 (q : Rat) : Int :=
  let e0 : Int := (Nat.log2 q.num.natAbs : Int) - (Nat.log2 q.den : Int)
  if pow2 e0 ≤ q then (if pow2 (e0 + 1) ≤ q then e0 + 1 else e0) else e0 - 1

/-- A dyadic rational whose numerator has at most 53 bits and whose denominator is at most `2^1074`
    is a binary64 value. -/
def isF64 (q : Rat) : Bool := 2 ^ 1074 % q.den == 0 && q.num.natAbs < 2 ^ 53

/-- Round a positive rational to the nearest binary64 value, ties to even; `inf` from `2^1024` on
    (after rounding). -/
def roundPos (q : Rat) : FR :=
  if isF64 q then .val q
  else
    let e := floorLog2 q
    let u : Int := if e - 52 < -1074 then -1074 else e - 52
    let x := q / pow2 u
    let n := x.floor
    let r := x - (n : Rat)
    let n' : Int := if (1 : Rat) / 2 < r ∨ (r = (1 : Rat) / 2 ∧ n % 2 = 1) then n + 1 else n
    let v := (n' : Rat) * pow2 u
    if pow2 1024 ≤ v then .inf else .val v

def FR.neg : FR → FR
  | .val q => .val (-q)
  | r => r

/-- The binary64 value of the decimal `±m · 10^sc`, `m` the number written by `len` digit
    characters (so `1 ≤ m < 10^len` unless `m = 0`).  Far outside the binary64 range the power of ten
    is not computed: `sc > 310` overflows whatever `m ≥ 1` is, and `sc < -(330 + len)` puts the value
    below `10^-330`, which rounds to 0. -/
def decToF64 (neg : Bool) (m : Nat) (len : Nat) (sc : Int) : FR :=
  if m = 0 then .val 0
  else
    let r : FR :=
      if 310 < sc then .inf
      else if sc < -(330 + (len : Int)) then .val 0
      else roundPos ((m : Rat) * pow10 sc)
    if neg then r.neg else r

/-- CPython's `float(text)` on ASCII text (not the words `inf` / `nan`): strip white space, check and
    remove underscores, read the decimal literal, round correctly to binary64. -/
def pyFloat (s : List Char) : FR :=
  match deUnderscore '\x00' (stripWs s) with
  | none => .err
  | some t =>
    match parseDecLit t with
    | none => .err
    | some l =>
      decToF64 l.neg (digitsVal (l.ip ++ l.fp)) (l.ip ++ l.fp).length (l.exp - (l.fp.length : Int))

/-! ### concrete `repr(float)` for values with a terminating decimal expansion -/

/-- Digits of `r/den` (`r < den`) after the decimal point, until the remainder is 0. -/
def fracDigits : Nat → Nat → Nat → List Char
  | 0, _, _ => []
  | f + 1, r, den => if r = 0 then [] else dch (r * 10 / den) :: fracDigits f (r * 10 % den) den

/-- Integer digits and fraction digits of `|q|` (the latter complete when the denominator divides a
    power of ten: at most `log2 den` of them). -/
def decExpansion (q : Rat) : List Char × List Char :=
  let n := q.num.natAbs
  (natDigits (n / q.den), fracDigits (Nat.log2 q.den + 1) (n % q.den) q.den)

/-- The exact decimal expansion in the plain layout `[-]digits.digits` (`5.0` for a whole value). -/
def reprDec (q : Rat) : List Char :=
  let (ip, fp) := decExpansion q
  (if q < 0 then ['-'] else []) ++ ip ++ '.' :: (if fp = [] then ['0'] else fp)

/-- Drop trailing zeros. -/
def dropTrail0 : List Char → List Char
  | [] => []
  | c :: cs =>
    match dropTrail0 cs with
    | [] => if c = '0' then [] else [c]
    | r => c :: r

/-- `repr(x)` of the float holding `q`, from the exact expansion: plain layout when the decimal
    exponent `x` satisfies `-4 ≤ x < 16`, else `d[.ddd]e±XX` (`float_repr_style = 'short'`). -/
def reprPy (q : Rat) : List Char :=
  if q = 0 then ['0', '.', '0']
  else
    let (ip, fp) := decExpansion q
    let full := ip ++ fp
    let z := (full.takeWhile (· == '0')).length
    let sig := dropTrail0 (full.drop z)
    let x : Int := (ip.length : Int) - (z : Int) - 1
    if -4 ≤ x ∧ x < 16 then reprDec q
    else
      let mant := match sig with
        | [] => ['0']
        | [d] => [d]
        | d :: ds => d :: '.' :: ds
      let ex := natDigits x.natAbs
      (if q < 0 then ['-'] else []) ++ mant ++ 'e' :: (if x < 0 then '-' else '+') ::
        (if ex.length < 2 then '0' :: ex else ex)

end IsoDT.Model.DurTextQ
