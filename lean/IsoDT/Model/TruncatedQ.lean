/-
  IsoDT.Model.TruncatedQ — `TimePoint.add_truncated` and the truncated branch of
  `TimePoint.__add__` on a full point given in ANY time-precision form: the hour / minute / second
  slots as the Python keeps them (`Model.TimePointQ`: numbers that may carry a fraction, the minute
  and second slots possibly `None`), over exact rationals.  The truncated point carries
  whole-number fields (`Model.Trunc`, the shapes of C20: `T06`, `T-30`, `T--15`, day designators).

  The statements of `add_truncated`, in order:

      new = self._get_end_of_day_normalised()._copy()                       -- normalise24Q
      if hour_of_day is not None and minute_of_hour is None: minute_of_hour = 0
      if (hour_of_day is not None or minute_of_hour is not None) and second_of_minute is None:
          second_of_minute = 0
      if second_of_minute is not None or minute_of_hour is not None:
          new = new.to_hour_minute_second()                                   -- hmsTPQ
          if new._second_of_minute != int(new._second_of_minute):             -- ceilSecQ
              new._second_of_minute = int(new._second_of_minute) + 1.0
              new._tick_over()
      if second_of_minute is not None:
          while new._second_of_minute != second_of_minute:
              new._second_of_minute += 1.0; new._tick_over()                  -- loopFieldQ
      ... the same for minute_of_hour, hour_of_day,
      day_of_week (after to_week_date), day_of_month (to_calendar_date),
      day_of_year (to_ordinal_date), week_of_year (to_week_date).

  Every `while` loop is mirrored with a fuel argument; `none` = the loop did not reach its target
  within the fuel (the Python would still be spinning) or the Python raises.  The fuel is a
  parameter (`addTruncatedQF`); `addTruncatedQ` runs with the constants of the integer model
  (`fuelTime`, `fuelDow`, ...), which `Props/C20q.lean` proves sufficient for every legal input.

  `to_hour_minute_second` replaces a decimal-hour / decimal-minute form by hour, minute, second
  (truncation by `int()`), so as soon as the truncated point names a time field the result is in
  hour:minute:second form whatever `p`'s form was.  The second slot then still carries `p`'s
  fraction of a second; the statement after it moves a point strictly inside a second up to the
  next whole second (the loops compare with whole numbers and keep a fraction for ever).
-/
import IsoDT.Model.TimePointQ2
import IsoDT.Model.Truncated

namespace IsoDT.Model
open IsoDT
open IsoDT.Spec (Date TZ TP)

/-- The fuel of each family of loops. -/
structure TruncFuel where
  time : Nat
  dow : Nat
  dom : Nat
  doy : Nat
  week : Nat
  deriving DecidableEq, Repr, Inhabited

/-- The constants of the integer model. -/
def stdTruncFuel : TruncFuel := ⟨fuelTime, fuelDow, fuelDom, fuelDoy, fuelWeek⟩

/-- `while not hit(new): bump(new); new._tick_over()`. -/
def loopFieldQ (m : Mode) (hit : TPQ → Prop) [DecidablePred hit] (bump : TPQ → TPQ) : Nat → TPQ → Option TPQ
  | 0, p => if hit p then some p else none
  | fuel + 1, p =>
    if hit p then some p
    else (tickOverQ m (bump p)).bind (loopFieldQ m hit bump fuel)

/-- `TimePoint.to_hour_minute_second`: the three slots replaced by `get_hour_minute_second()`. -/
def hmsTPQ (m : Mode) (p : TPQ) : Option TPQ :=
  (hmsQ m p).map fun t => { p with hh := t.1, mi := some t.2.1, ss := some t.2.2 }

/-- `if new._second_of_minute != int(new._second_of_minute):
        new._second_of_minute = int(new._second_of_minute) + 1.0; new._tick_over()`
    (`int(None)` raises: `none`; after `to_hour_minute_second` the slot is never `None`). -/
def ceilSecQ (m : Mode) (p : TPQ) : Option TPQ :=
  match p.ss with
  | some s =>
    if s ≠ (truncQ s : Rat) then tickOverQ m { p with ss := some ((truncQ s : Rat) + 1) } else some p
  | none => none

/-- The prefix of `add_truncated` when a time field is named: 24:00 normalised, expanded to hour,
    minute, second, moved up to the next whole second if inside one. -/
def ceilSec (m : Mode) (p : TPQ) : Option TPQ :=
  ((normalise24Q m p).bind (hmsTPQ m)).bind (ceilSecQ m)

def getDowQ (p : TPQ) : Int := match p.date with | .week _ _ d => d | _ => 0
def getWeekQ (p : TPQ) : Int := match p.date with | .week _ w _ => w | _ => 0
def getDomQ (p : TPQ) : Int := match p.date with | .cal _ _ d => d | _ => 0
def getDoyQ (p : TPQ) : Int := match p.date with | .ord _ n => n | _ => 0

def bumpWeekQ (p : TPQ) : TPQ :=
  match p.date with
  | .week y w d => { p with date := .week y (w + 1) d }
  | _ => p

def bumpDayQ (p : TPQ) : TPQ := { p with date := bumpDay p.date 1 }

/-- `to_calendar_date` / `to_ordinal_date` / `to_week_date` on a point (time slots untouched). -/
def toRepQ (m : Mode) (k : Nat) (p : TPQ) : Option TPQ :=
  (convert m k p.date).map fun dt => { p with date := dt }

/-- `minute_of_hour` after `if hour_of_day is not None and minute_of_hour is None: minute_of_hour = 0`. -/
def truncMI (t : Trunc) : Option Int := match t.hh, t.mi with | some _, none => some 0 | _, x => x

/-- `second_of_minute` after the second defaulting statement. -/
def truncSS (t : Trunc) : Option Int :=
  match t.ss with
  | some s => some s
  | none => if t.hh.isSome ∨ (truncMI t).isSome then some 0 else none

/-- `TimePoint.add_truncated(**props)` with the loop fuels `fu`. -/
def addTruncatedQF (fu : TruncFuel) (m : Mode) (p : TPQ) (t : Trunc) : Option TPQ := do
  -- new = self._get_end_of_day_normalised()._copy()
  let p0 ← normalise24Q m p
  let mi := truncMI t
  let ss := truncSS t
  -- if second_of_minute is not None or minute_of_hour is not None: new = new.to_hour_minute_second()
  --     if new._second_of_minute != int(new._second_of_minute): ... + 1.0; new._tick_over()
  let pH ← if ss.isSome ∨ mi.isSome then (hmsTPQ m p0).bind (ceilSecQ m) else some p0
  -- while new._second_of_minute != second_of_minute: new._second_of_minute += 1.0; new._tick_over()
  let p1 ← match ss with
    | some s => loopFieldQ m (fun q => q.ss = some (s : Rat)) (fun q => { q with ss := q.ss.map (· + 1) }) fu.time pH
    | none => some pH
  let p2 ← match mi with
    | some x => loopFieldQ m (fun q => q.mi = some (x : Rat)) (fun q => { q with mi := q.mi.map (· + 1) }) fu.time p1
    | none => some p1
  let p3 ← match t.hh with
    | some x => loopFieldQ m (fun q => q.hh = (x : Rat)) (fun q => { q with hh := q.hh + 1 }) fu.time p2
    | none => some p2
  let p4 ← match t.dow with
    | some x => (toRepQ m 2 p3).bind (loopFieldQ m (fun q => getDowQ q = x) bumpDayQ fu.dow)
    | none => some p3
  let p5 ← match t.dom with
    | some x => (toRepQ m 0 p4).bind (loopFieldQ m (fun q => getDomQ q = x) bumpDayQ fu.dom)
    | none => some p4
  let p6 ← match t.doy with
    | some x => (toRepQ m 1 p5).bind (loopFieldQ m (fun q => getDoyQ q = x) bumpDayQ fu.doy)
    | none => some p5
  match t.week with
  | some x => (toRepQ m 2 p6).bind (loopFieldQ m (fun q => getWeekQ q = x) bumpWeekQ fu.week)
  | none => some p6

/-- `TimePoint.add_truncated(**props)`. -/
def addTruncatedQ (m : Mode) (p : TPQ) (t : Trunc) : Option TPQ := addTruncatedQF stdTruncFuel m p t

/-- `truncated + full` (and `full + truncated`, which `__add__` turns round): `p` is read in `t`'s
    zone if `t` has one (`other.to_time_zone(self._time_zone)`, the identity for an unknown zone),
    `add_truncated`, and the result is expressed in `p`'s zone again. -/
def addTruncTPQF (fu : TruncFuel) (m : Mode) (p : TPQ) (t : Trunc) : Option TPQ :=
  match t.tz with
  | none => addTruncatedQF fu m p t
  | some z => (toTimeZoneQ m p z).bind fun q => (addTruncatedQF fu m q t).bind fun r => toTimeZoneQ m r p.tz

def addTruncTPQ (m : Mode) (p : TPQ) (t : Trunc) : Option TPQ := addTruncTPQF stdTruncFuel m p t

/-- `truncated + full` on rational-slot points with the hour-24 target read as 0 (repair F21). -/
def addTruncTPQ24 (m : Mode) (p : TPQ) (t : Trunc) : Option TPQ := addTruncTPQ m p t.norm24

end IsoDT.Model
