/-
  IsoDT.Model.RecurrenceMM — `TimeRecurrence` (data.py) WITH its `min_point` / `max_point`.

  `IsoDT.Model.Recurrence` models the recurrence with `min_point = max_point = None`.  Here the two
  optional points are carried along: `__init__` only stores them; `_get_is_in_bounds` also tests
  them (order of the tests in the code: start, min, max, end), and through it `get_next`,
  `get_prev`, `__iter__` (which STOPS at the first point out of bounds — so a start before
  `min_point` yields nothing), `__getitem__`, `get_is_valid`, `get_first_after`; `__add__` passes
  them on unchanged (not shifted); `__eq__` / `__hash__` include them as 5th and 6th component.
  Where the code path does not look at min/max the existing function is reused on `base`.
-/
import IsoDT.Model.Recurrence

namespace IsoDT.Model
open IsoDT
open IsoDT.Spec (Date TZ TP)

/-- A `TimeRecurrence` object: the six slots of `Rec` plus `_min_point`, `_max_point`. -/
structure RecMM where
  base : Rec
  minP : Option TP
  maxP : Option TP
  deriving DecidableEq, Repr, Inhabited

/-- `TimeRecurrence.__init__` with `min_point`, `max_point` (stored as given, never inspected). -/
def mkRecMM (m : Mode) (reps : Option Int) (start : Option TP) (dur : Option Dur) (end_ : Option TP)
    (minP maxP : Option TP) : Option RecMM :=
  (mkRec m reps start dur end_).map fun r => ⟨r, minP, maxP⟩

/-- The two tests `_get_is_in_bounds` makes against `min_point` and `max_point`. -/
def withinMM (m : Mode) (r : RecMM) (p : TP) : Bool :=
  (match r.minP with | some a => !tpLt m p a | none => true) &&
  (match r.maxP with | some b => !tpGt m p b | none => true)

/-- `_get_is_in_bounds` (tests in the code's order: start, min, max, end). -/
def inBoundsMM (m : Mode) (r : RecMM) (p : TP) : Bool :=
  (match r.base.start with | some s => !tpLt m p s | none => true) &&
  (match r.minP with | some a => !tpLt m p a | none => true) &&
  (match r.maxP with | some b => !tpGt m p b | none => true) &&
  (match r.base.end_ with | some e => !tpGt m p e | none => true)

/-- `get_next`. -/
def getNextMM (m : Mode) (r : RecMM) (p : TP) : Option TP :=
  if r.base.reps = some 1 then none
  else
    match r.base.dur with
    | none => none
    | some d =>
      match addDur m p d with
      | some q => if inBoundsMM m r q then some q else none
      | none => none

/-- `get_prev`. -/
def getPrevMM (m : Mode) (r : RecMM) (p : TP) : Option TP :=
  if r.base.reps = some 1 then none
  else
    match r.base.dur with
    | none => none
    | some d =>
      match subDur m p d with
      | some q => if inBoundsMM m r q then some q else none
      | none => none

/-- The `while point is not None` loop of `__iter__`, at most `fuel` points. -/
def iterFromMM (m : Mode) (r : RecMM) (rev : Bool) : Nat → TP → List TP
  | 0, _ => []
  | fuel + 1, p =>
    if inBoundsMM m r p then
      p :: (match (if rev then getPrevMM m r p else getNextMM m r p) with
            | some q => iterFromMM m r rev fuel q
            | none => [])
    else []

/-- `__iter__`: the first `fuel` points. -/
def iterMM (m : Mode) (r : RecMM) (fuel : Nat) : List TP :=
  let rev := r.base.start.isNone
  match (if rev then r.base.end_ else r.base.start) with
  | none => []
  | some p =>
    if r.base.reps == some 1 || (match r.base.dur with | none => true | some d => !d.nonzero) then
      (if fuel = 0 then [] else if inBoundsMM m r p then [p] else [])
    else iterFromMM m r rev fuel p

/-- `__getitem__`. -/
def getItemMM (m : Mode) (r : RecMM) (i : Nat) : Option TP := (iterMM m r (i + 1))[i]?

/-- `get_is_valid` (the scan with its two early exits only looks at `start`/`end` being `None`:
    `scanValid` of the base recurrence, over the bounded iteration). -/
def getIsValidMM (m : Mode) (r : RecMM) (p : TP) (fuel : Nat) : Bool :=
  if !inBoundsMM m r p then false else scanValid m r.base p (iterMM m r fuel)

/-- The iteration branch of `get_first_after`: `while current is not None and current <= p`. -/
def firstAfterLoopMM (m : Mode) (r : RecMM) (p : TP) : Nat → Option TP → Option TP
  | 0, c => c
  | _ + 1, none => none
  | fuel + 1, some c => if tpLe m c p then firstAfterLoopMM m r p fuel (getNextMM m r c) else some c

/-- `get_first_after` (recurrences that have a start point; whole-second probes).  Note the `elif`:
    a probe that is out of bounds only because of `min_point`/`max_point` and is before the start
    gets the start point, whether or not that is within [min, max]. -/
def getFirstAfterMM (m : Mode) (r : RecMM) (p : TP) (fuel : Nat) : Option TP :=
  match r.base.start with
  | none => none
  | some s =>
    if inBoundsMM m r p then
      match r.base.dur with
      | some d =>
        if d.isExact then
          match subTP m p s with
          | some diff =>
            if d.seconds m = 0 then none
            else
              let since := Int.fmod (diff.seconds m) (d.seconds m)
              match addDur m p (Dur.sub m d (.units 0 0 0 0 0 since)) with
              | some q => if inBoundsMM m r q then some q else none
              | none => none
          | none => none
        else firstAfterLoopMM m r p fuel r.base.start
      | none => firstAfterLoopMM m r p fuel r.base.start
    else if tpLt m p s then some s
    else none

/-- `TimeRecurrence.__add__(Duration)`: the anchors move, `min_point`/`max_point` are passed on. -/
def shiftMM (m : Mode) (r : RecMM) (d : Dur) : Option RecMM :=
  (r.base.shift m d).map fun b => ⟨b, r.minP, r.maxP⟩

/-- `TimeRecurrence.__eq__` (attribute order: repetitions, start, end, duration, min, max). -/
def eqMM (m : Mode) (a b : RecMM) : Bool :=
  Rec.eq m a.base b.base && optTpEq m a.minP b.minP && optTpEq m a.maxP b.maxP

/-- What `TimeRecurrence.__hash__` hashes (hash keys of the six components). -/
def hashKeyMM (m : Mode) (r : RecMM) :
    (Option Int × Option (Option (List Int)) × Option (Option (List Int)) × Option (Int × Int × Int)) ×
      Option (Option (List Int)) × Option (Option (List Int)) :=
  (r.base.hashKey m, r.minP.map (Model.hashKey m), r.maxP.map (Model.hashKey m))

end IsoDT.Model
