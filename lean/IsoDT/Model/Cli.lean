/-
  IsoDT.Model.Cli — the dispatch logic of `metomi/isodatetime/main.py` (`parse_args` pre/post
  processing of `-P…` arguments, `main`) and the operation-level structure of
  `DateTimeOperator.process_time_point_str / diff_time_point_strs / format_duration_str /
  iter_recurrence_str` as a *plan* of library calls.  `argparse` itself, `now`, and the
  `datetime`/`time` strptime/strftime fallbacks are outside the model.
-/
namespace IsoDT.Model.Cli

/-- Text is modelled as a list of characters. -/
abbrev Str := List Char

/-- What `argparse` hands to `main` (after `parse_args`). -/
structure Args where
  items : List Str
  asTotal : Option Str        -- --as-total
  calendar : Option Str       -- --calendar
  maxResults : Int               -- --max= (default 10)
  offsets1 : List Str         -- --offset1/--offset/-s/-1, in order
  offsets2 : List Str         -- --offset2/-2
  parseFormat : Option Str    -- --parse-format/-p
  printFormat : Option Str    -- --print-format/--format/-f
  ref : Option Str            -- --ref/-R
  utc : Bool                     -- --utc/-u
  version : Bool                 -- --version/-V
  deriving Repr, DecidableEq, Inhabited

/-- `rf'\{arg}' if arg.startswith('-P') else arg` applied to every raw argument. -/
def escapeArg (a : Str) : Str :=
  match a with
  | '-' :: 'P' :: _ => '\\' :: a
  | _ => a
def escapeArgs (argv : List Str) : List Str := argv.map escapeArg

/-- `item.replace("\\", "")` applied to every collected offset. -/
def unescape (s : Str) : Str := s.filter (· ≠ '\\')

/-- An offset as `date_shift` reads it: optional leading sign, the rest is a duration text. -/
structure Offset where
  negative : Bool
  duration : Str
  deriving Repr, DecidableEq, Inhabited

def readOffset (s : Str) : Offset :=
  match s with
  | '-' :: rest => ⟨true, rest⟩
  | '+' :: rest => ⟨false, rest⟩
  | _ => ⟨false, s⟩

/-- The offsets `date_shift` acts on: `if offset:` skips empty ones; then sign and duration text. -/
def readOffsets (l : List Str) : List Offset := ((l.map unescape).filter (· ≠ [])).map readOffset

/-- The library-level operation `main` performs. -/
inductive Plan where
  | version
  /-- `process_time_point_str(item, offsets, print_format)`: parse (or now/ref), apply the offsets
      in order, print in the print format if given, else in the notation it was parsed in. -/
  | shiftPrint (item : Option Str) (offsets : List Offset) (printFormat : Option Str)
  /-- `diff_time_point_strs`: parse both, shift each by its offsets, signed difference, optionally
      as a total of a unit. -/
  | diff (item1 item2 : Str) (offsets1 offsets2 : List Offset) (printFormat : Option Str)
      (asTotal : Option Str)
  /-- `iter_recurrence_str`, first `max` points (at least one is printed). -/
  | recurrence (item : Str) (printFormat : Option Str) (max : Int)
  /-- `format_duration_str(item, unit)`. -/
  | asTotal (item : Str) (unit : Str)
  deriving Repr, DecidableEq, Inhabited

/-- Settings `DateTimeOperator.__init__` derives from the options and the environment. -/
structure Ctx where
  calendar : Option Str      -- --calendar, else $ISODATETIMECALENDAR, else the default mode
  utc : Bool
  ref : Option Str           -- --ref, else $ISODATETIMEREF
  parseFormat : Option Str
  deriving Repr, DecidableEq, Inhabited

def ctxOf (a : Args) (envCalendar envRef : Option Str) : Ctx :=
  { calendar := match a.calendar with
      | some c => if c.isEmpty then envCalendar else some c
      | none => envCalendar,
    utc := a.utc,
    ref := match a.ref with | some r => some r | none => envRef,
    parseFormat := a.parseFormat }

/-- `main` (items already read from stdin if they were `['-']`). -/
def plan (a : Args) : Plan :=
  if a.version then .version
  else
    match a.items with
    | i1 :: i2 :: _ =>
      .diff i1 i2 (readOffsets a.offsets1) (readOffsets a.offsets2)
        a.printFormat a.asTotal
    | [i] =>
      if i.head? = some 'R' then .recurrence i a.printFormat a.maxResults
      else match a.asTotal with
        | some u => .asTotal i u
        | none => .shiftPrint (some i) (readOffsets a.offsets1) a.printFormat
    | [] => .shiftPrint none (readOffsets a.offsets1) a.printFormat

/-- How many recurrence points the `for … if len(outs) >= max: break` loop prints when the
    recurrence has `avail` points (`none` = unbounded). -/
def printedCount (max : Int) (avail : Option Nat) : Nat :=
  let want : Nat := if max ≤ 1 then 1 else max.toNat
  match avail with
  | none => want
  | some n => min want n

end IsoDT.Model.Cli
