/-
  IsoDT.Model.RecurrenceQFirst — executable model of `TimeRecurrence.get_first_after` (data.py) on
  the rational recurrence model (`Model.RecurrenceQ`: points and intervals that may carry
  FRACTIONS), as the Python is NOW (after the repair `6ac11ec`, finding F22), and of the same
  method as it was BEFORE that repair (`getFirstAfterFloorQ`).

      if self._get_is_in_bounds(timepoint):
          if self._duration is not None and self._duration.is_exact():
              iterations, seconds_since = divmod(
                  (timepoint - self._start_point).get_seconds(), self._duration.get_seconds())
              next_timepoint = timepoint + (self._duration - Duration(seconds=seconds_since))
              #   before 6ac11ec:             … - Duration(seconds=floor(seconds_since))
              if self._get_is_in_bounds(next_timepoint): return next_timepoint
              return None
          else:
              current = self._start_point
              while current is not None and current <= timepoint: current = self.get_next(current)
              return current
      elif timepoint < self._start_point: return self._start_point
      return None

  Statement by statement, over exact rationals (the Python computes on binary64; see the header of
  `Model.RecurrenceQ` for what that means):

  * `timepoint - self._start_point` is `subTPQ` (a unit-form `Duration` of days, hours, minutes,
    seconds), `.get_seconds()` is `DurationQ.seconds`;
  * `divmod(x, L)` on Python numbers is FLOOR division for either sign of `L`
    (`divmod(3.5, -1.5) == (-3.0, -1.0)`), and `ZeroDivisionError` for `L == 0`: `pyDivmodQ`
    (`q = ⌊x / L⌋`, remainder `x − q·L`; `none` for `L = 0`).  NOTE: `TimeRecurrence.__init__` never
    stores an exact interval of length ≤ 0 — a negative interval is a `BadInputError`, a zero one
    (`duration == Duration(years=0)`) collapses the recurrence to its single anchor point with
    `_duration = None`, and in the start/second-point notation the interval is the positive
    difference of two distinct points.  So `L ≤ 0` is reachable only on a hand-built `RecQ`; the
    model still says what the statements would do there;
  * `Duration(seconds=seconds_since)` is the unit form `0,0,0,0,0,seconds_since`;
    `self._duration - …` is `DurationQ.sub` (`self + -1 * other`, a week-form interval converted
    by `to_days` first); `timepoint + …` is `addDurationQ`;
  * the `else` branch (month/year interval, or NO interval = a single-point recurrence) is the
    `while` loop: `firstAfterLoopQ`, fuel-bounded (with `fuel = 0` the current candidate is
    returned, as in the whole-second model `Model.Recurrence.firstAfterLoop`);
  * out of bounds: `timepoint < self._start_point` gives the start, otherwise `None`.

  `self._start_point is None` (only the UNBOUNDED duration/end notation `R/<duration>/<end>`, and
  the degenerate `TimeRecurrence(repetitions=1)`): the Python raises `TypeError` in the closed form
  (`timepoint - None`: "Invalid subtraction type 'NoneType'") and in the `elif` (`timepoint <
  None`), and returns `None` from the iteration branch (`current = None`, the loop does not run).
  All three are `none` here (failure = `none`), decided up front.

  `min_point` / `max_point` are not modelled (always `None`), as in `Model.RecurrenceQ`.
-/
import IsoDT.Model.RecurrenceQ

namespace IsoDT.Model
open IsoDT
open IsoDT.Spec (Date TZ TP)

/-- Python `divmod(x, L)` on numbers: floor division for either sign of the divisor,
    `ZeroDivisionError` (`none`) for `L == 0`. -/
def pyDivmodQ (x L : Rat) : Option (Int × Rat) :=
  if L = 0 then none
  else
    let q := (x / L).floor
    some (q, x - (q : Rat) * L)

/-- The iteration branch of `get_first_after`: `while current is not None and current <= p`. -/
def firstAfterLoopQ (m : Mode) (r : RecQ) (p : TPQ) : Nat → Option TPQ → Option TPQ
  | 0, c => c
  | _ + 1, none => none
  | fuel + 1, some c => if tpLeQ m c p then firstAfterLoopQ m r p fuel (getNextQ m r c) else some c

/-- `get_first_after`, with the one expression the repair `6ac11ec` changed as a parameter:
    `adj seconds_since` is what is passed to `Duration(seconds=…)`. -/
def getFirstAfterWithQ (adj : Rat → Rat) (m : Mode) (r : RecQ) (p : TPQ) (fuel : Nat) : Option TPQ :=
  match r.start with
  | none => none   -- TypeError (closed form, `elif`), or `None` (iteration branch)
  | some s =>
    -- if self._get_is_in_bounds(timepoint):
    if inBoundsQ m r p then
      match r.dur with
      | some d =>
        -- if self._duration is not None and self._duration.is_exact():
        if d.isExact then
          -- (timepoint - self._start_point).get_seconds()
          match subTPQ m p s with
          | some diff =>
            -- iterations, seconds_since = divmod(…, self._duration.get_seconds())
            match pyDivmodQ ((DurationQ.ofDurQ diff).seconds m) (d.seconds m) with
            | none => none
            | some (_, since) =>
              -- next_timepoint = timepoint + (self._duration - Duration(seconds=seconds_since))
              match addDurationQ m p (DurationQ.sub m d (.units 0 0 0 0 0 (adj since))) with
              | some q => if inBoundsQ m r q then some q else none
              | none => none
          | none => none
        else firstAfterLoopQ m r p fuel r.start
      | none => firstAfterLoopQ m r p fuel r.start
    -- elif timepoint < self._start_point: return self._start_point
    else if tpLtQ m p s then some s
    else none

/-- `TimeRecurrence.get_first_after` as it is now: `Duration(seconds=seconds_since)`. -/
def getFirstAfterQ (m : Mode) (r : RecQ) (p : TPQ) (fuel : Nat) : Option TPQ :=
  getFirstAfterWithQ (fun x => x) m r p fuel

/-- `TimeRecurrence.get_first_after` as it was before `6ac11ec`:
    `Duration(seconds=floor(seconds_since))` (`math.floor`). -/
def getFirstAfterFloorQ (m : Mode) (r : RecQ) (p : TPQ) (fuel : Nat) : Option TPQ :=
  getFirstAfterWithQ (fun x => ((x.floor : Int) : Rat)) m r p fuel

end IsoDT.Model
