/-
  IsoDT.Model.Cli2 — an EVALUATING model of the `isodatetime` command for ISO 8601 input:
  `main.main` (dispatch = `Model.Cli.plan`) composed with `DateTimeOperator.__init__`,
  `date_parse`, `date_shift`, `date_diff`, `date_diff_format`, `date_format`,
  `process_time_point_str`, `diff_time_point_strs`, `format_duration_str`, `iter_recurrence_str`
  (datetimeoper.py) and `TimeRecurrenceParser.parse` (parsers.py), over the value models

    point parser (with dump_as_parsed)   `Text.parse`            (Model/Text.lean)
    strptime for the built-in formats    `Strf.strptime`         (Model/Strftime.lean)
    duration parser / `str(Duration)`    `DurText.parse/toText`  (Model/DurText.lean)
    point ± duration, point − point      `addDur/subDur/subTP`   (Model/TimePoint.lean)
    recurrences                          `mkRec/iter`            (Model/Recurrence.lean)
    dumper / `str(TimePoint)`            `Text.dump/str`         (Model/TextDump.lean)
    strftime                             `Strf.strftime`         (Model/Strftime.lean)

  `cliEval env args` is what the command prints (the lines of standard output) or how it fails:

    `.exit cls`       `sys.exit(message)` after a `ValueError` — non-zero exit with a message;
    `.traceback cls`  an exception `main` does not catch (the Python that exists has two such
                      paths: an unknown calendar name in `$ISODATETIMECALENDAR` → `KeyError`, and
                      `str()` of a recurrence point whose year is negative → `OverflowError`);
    `.outside why`    the invocation is outside the domain this model describes (no claim).

  DOMAIN.  What `argparse` returns is the input (`Model.Cli.Args`).  Outside (answer `.outside`):
  `--version`; `now` / no item / `ref` without a reference (the clock); items read from stdin;
  `--parse-format`; any item, offset, unit or option text with a character outside printable
  ASCII `!`..`~` (print formats may also contain spaces; so the two `ctime`-like built-in strptime
  formats, which need white space, never apply); points that are not whole-second (decimal
  fractions) or truncated; durations
  the duration model does not cover (decimal fractions, …: `DurText.PR.outside`); a `%` print
  format the library's own `strftime` refuses other than for the year bound (the `datetime`
  fallback prints it); dump formats `Text.dump` calls unsupported; totals of 2^53 seconds or more.

  The system's local time zone enters as the parameter `Env.localTZ`
  (`timezone.get_local_time_zone()`); it only matters for items without a zone when `--utc` is off.
  Python's `repr(float)` enters as the parameter `Env.floatRepr` with the law
  "`floatRepr n k` is `repr(n / k)`, the shortest decimal text that reads back as the binary64
  quotient nearest to n/k" (`|n| < 2^53`, `k ∈ {1, 60, 3600}`); floats are not modelled.
  Executable, total, proof-free.
-/
import IsoDT.Model.Cli
import IsoDT.Model.TextDump
import IsoDT.Model.DurText
import IsoDT.Model.Recurrence
import IsoDT.Model.Strftime

namespace IsoDT.Model.Cli2
open IsoDT IsoDT.Model IsoDT.Model.Cli
open IsoDT.Spec (Date TZ TP)

/-! ## Outcomes -/

/-- Which `ValueError` ended the command (the class of the message `sys.exit` prints). -/
inductive ExitClass where
  /-- the time point parser refused an item: ISO8601SyntaxError("date"/"time"/…), BadInputError of
      the `TimePoint` constructor, the ValueError of a failed `split` -/
  | point
  /-- `OffsetValueError`: "<text>: bad offset value" -/
  | offset
  /-- the duration parser refused the `--as-total` operand -/
  | duration
  /-- no recurrence regex matches (ISO8601SyntaxError("recurrence")) or the `TimeRecurrence`
      constructor refused (BadInputError) -/
  | recurrence
  /-- the print format cannot be honoured: TimePointDumperBoundsError, a failed `split`, the
      year bound of the `datetime` fallback -/
  | dump
  /-- "Invalid duration print format, should use one of H, M, S …" -/
  | unit
  /-- a point operation failed; excluded for valid points by the closure theorems (C01, C04) -/
  | arith
  deriving DecidableEq, Repr, Inhabited

inductive TbClass where
  | keyError | overflowError
  deriving DecidableEq, Repr, Inhabited

inductive Why where
  | version | clock | stdin | parseFormat | chars | notWholeSecond
  | duration | strftimeFallback | dump | hugeTotal | emptyUnit
  deriving DecidableEq, Repr, Inhabited

inductive Fail where
  | exit (cls : ExitClass)
  | traceback (cls : TbClass)
  | outside (why : Why)
  deriving DecidableEq, Repr, Inhabited

abbrev Res (α : Type) := Except Fail α

/-! ## The environment of the process -/

structure Env where
  /-- `$ISODATETIMECALENDAR` -/
  envCalendar : Option Str
  /-- `$ISODATETIMEREF` -/
  envRef : Option Str
  /-- `timezone.get_local_time_zone()` -/
  localTZ : TZ
  /-- Python's `repr(n / k)` -/
  floatRepr : Int → Nat → Str

/-- Printable ASCII without the space: the characters of the modelled domain. -/
def plainChar (c : Char) : Bool := 32 < c.toNat && c.toNat < 127
def plain (s : Str) : Bool := s.all plainChar
/-- Formats may contain spaces as well. -/
def plainSp (s : Str) : Bool := s.all fun c => plainChar c || c == ' '

/-! ## `DateTimeOperator.__init__` -/

def lowerAscii (c : Char) : Char := if 65 ≤ c.toNat ∧ c.toNat ≤ 90 then Char.ofNat (c.toNat + 32) else c
def upperAscii (c : Char) : Char := if 97 ≤ c.toNat ∧ c.toNat ≤ 122 then Char.ofNat (c.toNat - 32) else c

/-- `Calendar.MODES[mode.lower()]`. -/
def modeOfName (s : Str) : Option Mode :=
  let l := s.map lowerAscii
  if l = "gregorian".toList then some .greg
  else if l = "360day".toList ∨ l = "360_day".toList then some .d360
  else if l = "365day".toList ∨ l = "365_day".toList then some .d365
  else if l = "366day".toList ∨ l = "366_day".toList then some .d366
  else none

/-- `Calendar.default().set_mode(calendar_mode)`: nothing or an empty name is the default mode; an
    unknown name is a `KeyError` nobody catches. -/
def resolveMode (cal : Option Str) : Res Mode :=
  match cal with
  | none => .ok .greg
  | some s =>
    if s.isEmpty then .ok .greg
    else if !plain s then .error (.outside .chars)
    else match modeOfName s with
      | some m => .ok m
      | none => .error (.traceback .keyError)

/-- What the operator object holds. -/
structure Setup where
  mode : Mode
  utc : Bool
  loc : TZ
  ref : Option Str
  floatRepr : Int → Nat → Str

/-- `DateTimeOperator(parse_format, utc_mode, calendar_mode, ref_point_str)`. -/
def setup (env : Env) (a : Args) : Res Setup :=
  let ctx := ctxOf a env.envCalendar env.envRef
  match resolveMode ctx.calendar with
  | .error f => .error f
  | .ok m =>
    if ctx.parseFormat.isSome then .error (.outside .parseFormat)
    else .ok { mode := m, utc := ctx.utc, loc := env.localTZ, ref := ctx.ref, floatRepr := env.floatRepr }

/-- `TimePointParser(assumed_time_zone=(0, 0) if utc_mode else None)`. -/
def Setup.textCfg (st : Setup) : Text.Cfg :=
  { pt := Text.defaultTables, allowTruncated := false,
    zone := if st.utc then .assumed 0 0 else .localOffset st.loc.h st.loc.mi, mode := st.mode }

def Setup.strpCfg (st : Setup) : Strf.PCfg :=
  { assumed := if st.utc then some ⟨0, 0⟩ else none, defaultUnknown := false }

/-! ## `date_parse` -/

/-- A parsed item: the point, its expanded-year digit count, and the format it was read with
    (`parse_format`: a strptime format, or the ISO 8601 expression `dump_as_parsed` recorded). -/
structure Parsed where
  tp : TP
  ned : Nat
  fmt : Str
  deriving DecidableEq, Repr, Inhabited

def fmtExt : Str := "%Y-%m-%dT%H:%M:%S".toList
def fmtBasic : Str := "%Y%m%dT%H%M%S".toList

def isDig (c : Char) : Bool := 48 ≤ c.toNat && c.toNat ≤ 57

/-- One built-in strptime format of `PARSE_FORMATS`.  `DateTimeOperator.strptime` goes to the
    `time.strptime` fallback only on `StrftimeSyntaxError` (a directive the library does not
    implement).  The two ISO-like formats use implemented directives only, so for them any failure
    of `TimePointParser.strptime` is a `ValueError` that `date_parse` answers by trying the next
    format (`none`).  The two `ctime`-like formats (`%a %b … %Z`) do take the fallback, whose regex
    needs white space in the text: they never match a text of the domain. -/
def tryStrp (st : Setup) (s fmt : Str) : Option Parsed :=
  match Strf.strptime st.mode st.strpCfg st.loc s fmt with
  | .ok tp => some ⟨tp, 0, fmt⟩
  | .error _ => none

/-- The ISO 8601 branch: `time_point_parser.parse(s, dump_as_parsed=True)`. -/
def parseIso (st : Setup) (s : Str) (asParsed : Bool) : Res Parsed :=
  match Text.parse st.textCfg s asParsed with
  | none => .error (.exit .point)
  | some x =>
    match x.toTP? with
    | none => .error (.outside .notWholeSecond)
    | some tp => .ok ⟨tp, x.ned, x.dumpFmt.getD []⟩

/-- `if self.utc_mode: time_point = time_point.to_utc()`. -/
def utcIf (st : Setup) (p : Parsed) : Res Parsed :=
  if st.utc then
    match toUtc st.mode p.tp with
    | some q => .ok { p with tp := q }
    | none => .error (.exit .arith)
  else .ok p

/-- The attempts of `date_parse` in order: the two ISO-like built-in strptime formats, then the
    ISO 8601 parser with `dump_as_parsed=True`. -/
def parseAny (st : Setup) (s : Str) : Res Parsed :=
  match tryStrp st s fmtExt with
  | some P => .ok P
  | none =>
    match tryStrp st s fmtBasic with
    | some P => .ok P
    | none => parseIso st s true

/-- `date_parse(time_point_str)` for a given item. -/
def dateParse (st : Setup) (item : Str) : Res Parsed :=
  let text : Option Str := if item = "ref".toList then st.ref else some item
  match text with
  | none => .error (.outside .clock)
  | some s =>
    if s = "now".toList then .error (.outside .clock)
    else if !plain s then .error (.outside .chars)
    else
      match parseAny st s with
      | .error f => .error f
      | .ok P => utcIf st P

/-! ## `date_shift` -/

/-- The duration an offset adds: `duration_parser.parse(offset)`, negated for a leading `-`. -/
def offsetDur (m : Mode) (o : Offset) : Res Dur :=
  if !plain o.duration then .error (.outside .chars)
  else
    match DurText.parse m o.duration with
    | .ok d => .ok (if o.negative then d.mul (-1) else d)
    | .syntaxErr => .error (.exit .offset)
    | .valueErr => .error (.exit .offset)
    | .outside => .error (.outside .duration)

/-- `time_point + duration`. -/
def addStep (m : Mode) (p : TP) (d : Dur) : Res TP :=
  match addDur m p d with
  | some q => .ok q
  | none => .error (.exit .arith)

/-- `for offset in offsets: time_point = self.date_shift(time_point, offset)`. -/
def applyOffsets (m : Mode) (p : TP) : List Offset → Res TP
  | [] => .ok p
  | o :: os =>
    match offsetDur m o with
    | .error f => .error f
    | .ok d =>
      match addStep m p d with
      | .error f => .error f
      | .ok q => applyOffsets m q os

/-! ## `date_format` -/

/-- Python truthiness of an optional text. -/
def given : Option Str → Option Str
  | some s => if s.isEmpty then none else some s
  | none => none

/-- `date_format(print_format, time_point)`; the operator's dumper is `TimePointDumper()`. -/
def formatPoint (m : Mode) (ned : Nat) (p : TP) (fmt : Str) : Res Str :=
  if !plainSp fmt then .error (.outside .chars)
  else if fmt.contains '%' then
    match Strf.strftime m p fmt with
    | .ok s => .ok s
    | .error .bounds => .error (.exit .dump)
    | .error _ => .error (.outside .strftimeFallback)
  else
    match Text.dumpTablesFor 2 with
    | none => .error (.outside .dump)
    | some dt =>
      match Text.dump m dt (Text.XTP.ofTP ned p) fmt with
      | .ok s => .ok s
      | .error .err => .error (.exit .dump)
      | .error .overflow => .error (.traceback .overflowError)
      | .error .unsupported => .error (.outside .dump)

/-- `str(time_point)` of a point that has no recorded format. -/
def strPoint (m : Mode) (ned : Nat) (p : TP) : Res Str :=
  match Text.str m (Text.XTP.ofTP ned p) with
  | .ok s => .ok s
  | .error .err => .error (.exit .dump)
  | .error .overflow => .error (.traceback .overflowError)
  | .error .unsupported => .error (.outside .dump)

/-! ## `process_time_point_str` -/

def shiftPrint (st : Setup) (item : Str) (offs : List Offset) (pf : Option Str) : Res Str :=
  match dateParse st item with
  | .error f => .error f
  | .ok P =>
    match applyOffsets st.mode P.tp offs with
    | .error f => .error f
    | .ok q => formatPoint st.mode P.ned q ((given pf).getD P.fmt)

/-! ## `format_duration_str` -/

/-- The number printed for a duration and a unit divisor (1, 60, 3600): a week-form duration in
    seconds is a Python `int`; everything else is a `float`. -/
def totalText (st : Setup) (d : Dur) (k : Nat) : Str :=
  match d, k with
  | .weeks _, 1 => DurText.intText (d.seconds st.mode)
  | _, _ => st.floatRepr (d.seconds st.mode) k

def unitDivisor (u : Str) : Option Nat :=
  let v := u.map upperAscii
  if v = ['S'] then some 1 else if v = ['M'] then some 60 else if v = ['H'] then some 3600 else none

def formatDurationStr (st : Setup) (text unit : Str) : Res Str :=
  if !plain text || !plain unit then .error (.outside .chars)
  else
    match DurText.parse st.mode (unescape text) with
    | .ok d =>
      if (d.seconds st.mode).natAbs ≥ 2 ^ 53 then .error (.outside .hugeTotal)
      else
        match unitDivisor unit with
        | some k => .ok (totalText st d k)
        | none => .error (.exit .unit)
    | .syntaxErr => .error (.exit .duration)
    | .valueErr => .error (.exit .duration)
    | .outside => .error (.outside .duration)

/-! ## `diff_time_point_strs` -/

/-- `date_diff`: (is the second point earlier?, the non-negative difference). -/
def dateDiff (m : Mode) (p1 p2 : TP) : Res (Bool × Dur) :=
  match cmp m p2 p1 with
  | none => .error (.exit .arith)
  | some c =>
    let neg := decide (c < 0)
    match (if neg then subTP m p1 p2 else subTP m p2 p1) with
    | some d => .ok (neg, d)
    | none => .error (.exit .arith)

/-- The slot a letter of the duration print format names. -/
def slotOf (d : Dur) (c : Char) : Option Int :=
  match d with
  | .weeks _ => none
  | .units y mo dd h mi s =>
    if c = 'y' then some y else if c = 'm' then some mo else if c = 'd' then some dd
    else if c = 'h' then some h else if c = 'M' then some mi else if c = 's' then some s else none

/-- `date_diff_format` with a print format: letters `y m d h M s` are replaced by the slot. -/
def diffExpr (d : Dur) (fmt : Str) : Str :=
  fmt.flatMap fun c => match slotOf d c with
    | some v => DurText.intText v
    | none => [c]

def signText (neg : Bool) : Str := if neg then ['-'] else []

def diffPrint (st : Setup) (i1 i2 : Str) (o1 o2 : List Offset) (pf tot : Option Str) : Res Str :=
  match dateParse st i1 with
  | .error f => .error f
  | .ok P1 =>
    match dateParse st i2 with
    | .error f => .error f
    | .ok P2 =>
      match applyOffsets st.mode P1.tp o1 with
      | .error f => .error f
      | .ok q1 =>
        match applyOffsets st.mode P2.tp o2 with
        | .error f => .error f
        | .ok q2 =>
          match dateDiff st.mode q1 q2 with
          | .error f => .error f
          | .ok (neg, d) =>
            match given pf with
            | some f =>
              if !plainSp f then .error (.outside .chars)
              else
                let out := signText neg ++ diffExpr d f
                (match given tot with
                 | some u => formatDurationStr st out u
                 | none => .ok out)
            | none =>
              let out := signText neg ++ DurText.toText d
              (match given tot with
               | some u => formatDurationStr st out u
               | none => .ok out)

/-! ## `TimeRecurrenceParser.parse` and `iter_recurrence_str` -/

/-- The named groups of the recurrence regex that matched. -/
structure RecText where
  reps : Option Str
  start : Option Str
  intv : Option Str
  end_ : Option Str
  deriving DecidableEq, Repr, Inhabited

/-- `[^/]*/` : the text up to the first `/`, and what follows it. -/
def splitSlash : Str → Option (Str × Str)
  | [] => none
  | c :: cs =>
    if c = '/' then some ([], cs)
    else (splitSlash cs).map fun (a, b) => (c :: a, b)

/-- `(?P<start>[^P][^/]*)/` at the front: the first character is anything but `P` (a `/` too). -/
def startGroup : Str → Option (Str × Str)
  | [] => none
  | c :: cs => if c = 'P' then none else (splitSlash cs).map fun (a, b) => (c :: a, b)

/-- `(?P<intv>P.+)/(?P<end>[^P].*)$`: the interval is greedy, so the LAST `/` that is followed by a
    non-empty text not starting with `P` (and preceded by `P` and at least one character) splits. -/
def intvEnd : Str → Option (Str × Str)
  | [] => none
  | c :: cs =>
    match intvEnd cs with
    | some (a, b) => some (c :: a, b)
    | none =>
      if c = '/' then
        match cs with
        | e :: _ => if e = 'P' then none else some ([], cs)
        | [] => none
      else none

/-- The three `RECURRENCE_REGEXES` in order, after `R<digits>/` (texts of the domain have no
    newline, so `.` is any character and `$` is the end). -/
def recGroups (reps : Option Str) (rest : Str) : Option RecText :=
  -- 1: start / end
  let r1 : Option RecText :=
    match startGroup rest with
    | some (s, e :: es) => if e = 'P' then none else some ⟨reps, some s, none, some (e :: es)⟩
    | _ => none
  match r1 with
  | some r => some r
  | none =>
    -- 2: start / interval
    let r2 : Option RecText :=
      match startGroup rest with
      | some (s, 'P' :: x :: xs) => some ⟨reps, some s, some ('P' :: x :: xs), none⟩
      | _ => none
    match r2 with
    | some r => some r
    | none =>
      -- 3: interval / end
      match rest with
      | 'P' :: x :: xs =>
        match intvEnd xs with
        | some (a, e) => some ⟨reps, none, some ('P' :: x :: a), some e⟩
        | none => none
      | _ => none

def matchRec (s : Str) : Option RecText :=
  match s with
  | 'R' :: t =>
    let ds := t.takeWhile isDig
    match t.dropWhile isDig with
    | '/' :: rest => recGroups (if ds.isEmpty then none else some ds) rest
    | _ => none
  | _ => none

/-- A parsed recurrence and the expanded-year digit count its points print with. -/
structure ParsedRec where
  r : Rec
  ned : Nat
  deriving Repr, Inhabited

def optPoint (st : Setup) : Option Str → Res (Option Parsed)
  | none => .ok none
  | some s => (parseIso st s false).map some

def optDur (m : Mode) : Option Str → Res (Option Dur)
  | none => .ok none
  | some s =>
    match DurText.parse m s with
    | .ok d => .ok (some d)
    | .syntaxErr => .error (.exit .duration)
    | .valueErr => .error (.exit .duration)
    | .outside => .error (.outside .duration)

/-- `recurrence_parser.parse(recurrence_str)`. -/
def parseRec (st : Setup) (s : Str) : Res ParsedRec :=
  if !plain s then .error (.outside .chars)
  else
    match matchRec s with
    | none => .error (.exit .recurrence)
    | some g =>
      match optPoint st g.start with
      | .error f => .error f
      | .ok sp =>
        match optPoint st g.end_ with
        | .error f => .error f
        | .ok ep =>
          match optDur st.mode g.intv with
          | .error f => .error f
          | .ok du =>
            match mkRec st.mode (g.reps.map fun ds => (Text.digitsVal ds : Int)) (sp.map (·.tp)) du
                    (ep.map (·.tp)) with
            | none => .error (.exit .recurrence)
            | some r =>
              .ok ⟨r, match sp, ep with
                      | some p, _ => p.ned
                      | none, some p => p.ned
                      | none, none => 0⟩

/-- One printed recurrence point: the print format if given, else `str(point)`. -/
def formatRecPoint (m : Mode) (ned : Nat) (pf : Option Str) (p : TP) : Res Str :=
  match given pf with
  | some f => formatPoint m ned p f
  | none => strPoint m ned p

/-- The loop of `main` over `iter_recurrence_str`. -/
def mapRes {α β : Type} (f : α → Res β) : List α → Res (List β)
  | [] => .ok []
  | x :: xs =>
    match f x with
    | .error e => .error e
    | .ok y =>
      match mapRes f xs with
      | .error e => .error e
      | .ok ys => .ok (y :: ys)

def recPrint (st : Setup) (item : Str) (pf : Option Str) (max : Int) : Res (List Str) :=
  match parseRec st item with
  | .error f => .error f
  | .ok R => mapRes (formatRecPoint st.mode R.ned pf) (iter st.mode R.r (printedCount max none))

/-! ## `main` -/

def evalPlan (st : Setup) : Plan → Res (List Str)
  | .version => .error (.outside .version)
  | .shiftPrint none _ _ => .error (.outside .clock)
  | .shiftPrint (some i) offs pf => (shiftPrint st i offs pf).map fun s => [s]
  | .diff i1 i2 o1 o2 pf tot => (diffPrint st i1 i2 o1 o2 pf tot).map fun s => [s]
  | .recurrence i pf mx => recPrint st i pf mx
  | .asTotal i u =>
    -- `elif args.items and args.duration_print_format:` — an empty unit is falsy
    if u.isEmpty then .error (.outside .emptyUnit) else (formatDurationStr st i u).map fun s => [s]

/-- `main(argv)` given what `argparse` returned: the printed lines, or how the command fails. -/
def cliEval (env : Env) (a : Args) : Res (List Str) :=
  if a.version then .error (.outside .version)
  else if a.items = [['-']] then .error (.outside .stdin)
  else
    match setup env a with
    | .error f => .error f
    | .ok st => evalPlan st (plan a)

end IsoDT.Model.Cli2
