/-
  IsoDT.Model.LocalTZ — `timezone.get_local_time_zone` / `get_local_time_zone_format` with the
  operating system's zone data entered as parameters (`time.timezone`, `time.altzone`,
  `time.daylight`, `time.localtime().tm_isdst`), and the Unix-epoch conversions of data.py.
-/
import IsoDT.Model.Duration

namespace IsoDT.Model
open IsoDT
open IsoDT.Spec (Date TZ TP)

/-- The UTC offset in seconds `get_local_time_zone` starts from. -/
def localOffsetSeconds (timezone altzone : Int) (daylight : Bool) (isdst : Int) : Int :=
  if isdst = 1 ∧ daylight then -altzone else -timezone

/-- `get_local_time_zone`: Python `//` and `%` are floor division and the divisor-signed modulus. -/
def splitOffset (off : Int) : Int × Int :=
  let sign : Int := if off < 0 then -1 else 1
  (sign * Int.fdiv (sign * off) 3600, Int.fmod (Int.fdiv off 60) (sign * 60))

def localTZ (timezone altzone : Int) (daylight : Bool) (isdst : Int) : Int × Int :=
  splitOffset (localOffsetSeconds timezone altzone daylight isdst)

def pad2 (n : Int) : String :=
  let s := toString n.natAbs
  if s.length < 2 then "0" ++ s else s

/-- `get_local_time_zone_format(mode)` from the (hours, minutes) pair; mode 0 normal (`±hhmm`),
    1 reduced (`±hh`, falling back to normal when minutes ≠ 0), 2 extended (`±hh:mm`). -/
def formatLocalTZ (mode : Nat) (hm : Int × Int) : String :=
  if hm.1 = 0 ∧ hm.2 = 0 then "Z"
  else
    let mode := if mode = 1 ∧ hm.2 ≠ 0 then 0 else mode
    let sign := if hm.1 < 0 ∨ hm.2 < 0 then "-" else "+"
    match mode with
    | 1 => sign ++ pad2 hm.1
    | 2 => sign ++ pad2 hm.1 ++ ":" ++ pad2 hm.2
    | _ => sign ++ pad2 hm.1 ++ pad2 hm.2

/-- The Unix epoch reference point `TimePoint(year=1970, time_zone_hour=0, time_zone_minute=0)`. -/
def unixEpoch : TP :=
  ⟨.cal Gen.unixEpochYear 1 1, 0, 0, 0, ⟨Gen.unixEpochTzHour, Gen.unixEpochTzMinute⟩⟩

/-- `get_timepoint_from_seconds_since_unix_epoch(n, utc)`; `z = none` for `utc=True`, else the
    local zone. -/
def fromUnix (m : Mode) (n : Int) (z : Option TZ) : Option TP :=
  match z with
  | none => addDur m unixEpoch (.units 0 0 0 0 0 n)
  | some z => (toTimeZone m unixEpoch z).bind fun r => addDur m r (.units 0 0 0 0 0 n)

/-- `TimePoint.seconds_since_unix_epoch` (as an integer). -/
def secondsSinceUnixEpoch (m : Mode) (p : TP) : Option Int :=
  (subTP m p unixEpoch).map fun d =>
    (calOf m).secondsInDay * (d.daysAndSeconds m).1 + (d.daysAndSeconds m).2

end IsoDT.Model
