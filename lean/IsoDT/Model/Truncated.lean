/-
  IsoDT.Model.Truncated — `TimePoint.add_truncated` and the truncated branch of
  `TimePoint.__add__` (a truncated point specifying time-of-day fields and/or one day designator,
  added to a full whole-second point).

  Every `while new._field != target: new._field += 1; new._tick_over()` loop is mirrored with a
  fuel argument; `none` means the loop did not reach its target within the fuel (the Python would
  still be spinning).  `Props/C20.lean` proves how much fuel always suffices.
-/
import IsoDT.Model.TimePoint

namespace IsoDT.Model
open IsoDT
open IsoDT.Spec (Date TZ TP)

/-- The properties a truncated point may carry (C20's shapes), and its zone if it has one. -/
structure Trunc where
  week : Option Int
  dow : Option Int
  dom : Option Int
  doy : Option Int
  hh : Option Int
  mi : Option Int
  ss : Option Int
  tz : Option TZ
  deriving DecidableEq, Repr, Inhabited

/-- `while get new != target: bump new; new._tick_over()`. -/
def loopField (m : Mode) (get : TP → Int) (bump : TP → TP) (target : Int) : Nat → TP → Option TP
  | 0, p => if get p = target then some p else none
  | fuel + 1, p =>
    if get p = target then some p
    else (tickOver m (bump p)).bind (loopField m get bump target fuel)

def getDow (p : TP) : Int := match p.date with | .week _ _ d => d | _ => 0
def getWeek (p : TP) : Int := match p.date with | .week _ w _ => w | _ => 0
def getDom (p : TP) : Int := match p.date with | .cal _ _ d => d | _ => 0
def getDoy (p : TP) : Int := match p.date with | .ord _ n => n | _ => 0

def bumpWeek (p : TP) : TP :=
  match p.date with
  | .week y w d => { p with date := .week y (w + 1) d }
  | _ => p

/-- `to_calendar_date` / `to_ordinal_date` / `to_week_date` on a point. -/
def toRep (m : Mode) (k : Nat) (p : TP) : Option TP :=
  (convert m k p.date).map fun dt => { p with date := dt }

/-- Fuel for each loop: generous constants, shown sufficient in `Props/C20.lean`. -/
def fuelTime : Nat := 60
def fuelDow : Nat := 7
def fuelDom : Nat := 70
def fuelDoy : Nat := 3000
def fuelWeek : Nat := 450

/-- `TimePoint.add_truncated(**props)`. -/
def addTruncated (m : Mode) (p : TP) (t : Trunc) : Option TP := do
  let p0 ← normalise24 m p
  let mi := match t.hh, t.mi with | some _, none => some 0 | _, x => x
  let ss := match t.ss with
    | some s => some s
    | none => if t.hh.isSome ∨ mi.isSome then some 0 else none
  let p1 ← match ss with
    | some s => loopField m (·.ss) (fun q => { q with ss := q.ss + 1 }) s fuelTime p0
    | none => some p0
  let p2 ← match mi with
    | some x => loopField m (·.mi) (fun q => { q with mi := q.mi + 1 }) x fuelTime p1
    | none => some p1
  let p3 ← match t.hh with
    | some x => loopField m (·.hh) (fun q => { q with hh := q.hh + 1 }) x fuelTime p2
    | none => some p2
  let p4 ← match t.dow with
    | some x => (toRep m 2 p3).bind (loopField m getDow (fun q => { q with date := bumpDay q.date 1 }) x fuelDow)
    | none => some p3
  let p5 ← match t.dom with
    | some x => (toRep m 0 p4).bind (loopField m getDom (fun q => { q with date := bumpDay q.date 1 }) x fuelDom)
    | none => some p4
  let p6 ← match t.doy with
    | some x => (toRep m 1 p5).bind (loopField m getDoy (fun q => { q with date := bumpDay q.date 1 }) x fuelDoy)
    | none => some p5
  match t.week with
  | some x => (toRep m 2 p6).bind (loopField m getWeek bumpWeek x fuelWeek)
  | none => some p6

/-- `truncated + full` (and `full + truncated`): read `t` in its own zone if it has one, else in
    `p`'s; the result is expressed in `p`'s zone. -/
def addTruncTP (m : Mode) (p : TP) (t : Trunc) : Option TP :=
  match t.tz with
  | none => addTruncated m p t
  | some z => (toTimeZone m p z).bind fun q => (addTruncated m q t).bind fun r => toTimeZone m r p.tz

/-- `if hour_of_day == CALENDAR.HOURS_IN_DAY: hour_of_day = 0` at the head of `add_truncated` (repair F21: an hour
    target of 24 is the end of the day, read as 00:00 of the next day like 24:00 everywhere else). -/
def Trunc.norm24 (t : Trunc) : Trunc := if t.hh = some 24 then { t with hh := some 0 } else t

/-- `TimePoint.add_truncated(**props)` as repaired. -/
def addTruncated24 (m : Mode) (p : TP) (t : Trunc) : Option TP := addTruncated m p t.norm24

/-- `truncated + full` as repaired (the normalisation does not touch the zone). -/
def addTruncTP24 (m : Mode) (p : TP) (t : Trunc) : Option TP := addTruncTP m p t.norm24

end IsoDT.Model
