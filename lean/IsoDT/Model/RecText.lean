/-
  IsoDT.Model.RecText — executable model of the text forms of `TimeRecurrence` (C14, last clause;
  C09 for recurrences):

    * `Rec.toString` : `TimeRecurrence.__str__` (data.py): the prefix `R/` / `Rn/`, then by
                       `format_number` start/second point, start/duration or duration/end, the
                       interval spelled `P0Y` when `_duration is None`.  Built from `Text.str`
                       (`TimePoint.__str__`) and `DurText.toText` (`Duration.__str__`).
    * `parseRec`     : `TimeRecurrenceParser.parse` (parsers.py): the three `RECURRENCE_REGEXES`
                       tried in order,

                         ^R(?P<reps>\d+)?/(?P<start>[^P][^/]*)/(?P<end>[^P].*)$
                         ^R(?P<reps>\d+)?/(?P<start>[^P][^/]*)/(?P<intv>P.+)$
                         ^R(?P<reps>\d+)?/(?P<intv>P.+)/(?P<end>[^P].*)$

                       `int(reps)`, `self.timepoint_parser.parse` on `start` / `end`
                       (`Text.parse`), `self.duration_parser.parse` on `intv` (`DurText.parse`),
                       then `TimeRecurrence(...)` (`mkRec`).

  The regexes are modelled by direct splitters that reproduce what CPython's `re` accepts and
  captures for these three shapes (`.` does not match a newline, the classes `[^P]`, `[^/]` do; `$`
  also matches just before a final newline; `.+` in the third pattern is greedy, so the *last* `/`
  that leaves a well-formed `end` wins; `[^P]` may itself consume a `/`).  They are hand-written,
  not regenerated: the differential check (driver ops `rparse`, `rgroups`) ties them to the live
  patterns.

  A `TP` of the value model does not carry `num_expanded_year_digits`, which `str(point)` depends
  on; `Rec.toString` therefore takes the digits of the two points it may print as parameters and
  `parseRec` reports them for the points it read.

  Failures of the Python (`ISO8601SyntaxError`, `BadInputError`, the `ValueError` of `float`, every
  `ValueError`-derived exception of the point parser / constructor) are `Res.fail`.  Whatever this
  model makes no claim about is `Res.outside`: a repetitions group that may contain non-ASCII
  decimal digits (`\d` and `int` accept them), an interval text `DurText.parse` leaves outside
  (decimals, non-ASCII, ...), a point that is not a whole-second, non-truncated, zone-carrying
  `TP` (decimal fractions, truncated forms, unknown zone).  A failure anywhere wins over
  `outside` (the Python raises as soon as one piece fails, whichever it is).  `int`/`str` are the
  mathematical conversions (CPython's `sys.set_int_max_str_digits` limit, 4300 digits by default,
  is an interpreter setting and is not modelled).
  Executable, total, proof-free.
-/
import IsoDT.Model.TextDump
import IsoDT.Model.DurText
import IsoDT.Model.Recurrence

namespace IsoDT.RecText
open IsoDT IsoDT.Model IsoDT.Text
open IsoDT.Spec (Date TZ TP)
open IsoDT.Model.DurText (isDig intText toText)

/-! ## `TimeRecurrence.__str__` -/

/-- `str(point)` for an attribute that may be `None`. -/
def strPoint (m : Mode) (ned : Nat) : Option TP → Except DumpErr (List Char)
  | some p => Text.str m (XTP.ofTP ned p)
  | none => .ok ['N', 'o', 'n', 'e']

/-- `"R/"` or `"R" + str(self._repetitions) + "/"`. -/
def strPrefix : Option Int → List Char
  | none => ['R', '/']
  | some n => 'R' :: (intText n ++ ['/'])

/-- `str(self._duration) if self._duration is not None else 'P0Y'`. -/
def strDur : Option Dur → List Char
  | some d => toText d
  | none => ['P', '0', 'Y']

/-- `TimeRecurrence.__str__`.  `nedS` / `nedE`: the `num_expanded_year_digits` carried by the
    printed `_start_point` and by the printed `_second_point` (notation 1) / `_end_point`
    (notation 4).  An error is the error of `str(point)` (e.g. the `OverflowError` of a negative
    year without expanded digits). -/
def _root_.IsoDT.Model.Rec.toString (m : Mode) (nedS nedE : Nat) (r : Rec) : Except DumpErr (List Char) :=
  match r.fmt with
  | 1 =>
    match strPoint m nedS r.start, strPoint m nedE r.second with
    | .ok a, .ok b => .ok (strPrefix r.reps ++ a ++ '/' :: b)
    | .error e, _ => .error e
    | _, .error e => .error e
  | 3 =>
    match strPoint m nedS r.start with
    | .ok a => .ok (strPrefix r.reps ++ a ++ '/' :: strDur r.dur)
    | .error e => .error e
  | 4 =>
    match strPoint m nedE r.end_ with
    | .ok b => .ok (strPrefix r.reps ++ strDur r.dur ++ '/' :: b)
    | .error e => .error e
  | _ => .ok ['R', '/', '?', '/', '?']

/-! ## The three regular expressions -/

/-- The longest run of ASCII digits off the front, and what follows. -/
def digitRun : List Char → List Char × List Char
  | [] => ([], [])
  | c :: cs => if isDig c then (c :: (digitRun cs).1, (digitRun cs).2) else ([], c :: cs)

/-- Outcome of the common head `^R(?P<reps>\d+)?/`. -/
inductive Hdr where
  /-- the `reps` group (`none` = did not participate) and the text after the `/` -/
  | ok (reps : Option (List Char)) (rest : List Char)
  | nomatch
  /-- a non-ASCII character where `\d` is tried -/
  | outside
  deriving DecidableEq, Repr

/-- `^R(?P<reps>\d+)?/`: the greedy digit run must be followed by `/` (backing off inside the run
    would put a digit where the `/` has to be). -/
def header : List Char → Hdr
  | 'R' :: t =>
    match (digitRun t).2 with
    | '/' :: rest => .ok (if (digitRun t).1.isEmpty then none else some (digitRun t).1) rest
    | c :: _ => if 128 ≤ c.toNat then .outside else .nomatch
    | [] => .nomatch
  | _ => .nomatch

/-- `.*$` : the run of non-newline characters up to the end of the text, or up to a final newline
    (which `$` tolerates and no group captures).  Returns the run. -/
def dotTail : List Char → Option (List Char)
  | [] => some []
  | c :: cs =>
    if c = '\n' then (if cs.isEmpty then some [] else none)
    else (dotTail cs).map (c :: ·)

/-- `(?P<end>[^P].*)$` on the whole remaining text: the captured group. -/
def endGroup : List Char → Option (List Char)
  | [] => none
  | x :: e => if x = 'P' then none else (dotTail e).map (x :: ·)

/-- `(?P<intv>P.+)$` on the whole remaining text: the captured group. -/
def intvGroup : List Char → Option (List Char)
  | 'P' :: y :: ys => if y = '\n' then none else (dotTail ys).map fun t => 'P' :: y :: t
  | _ => none

/-- `[^/]*` followed by the literal `/`: (the run, the text after the `/`). -/
def toSlash : List Char → Option (List Char × List Char)
  | [] => none
  | c :: cs => if c = '/' then some ([], cs) else (toSlash cs).map fun (a, b) => (c :: a, b)

/-- `(?P<start>[^P][^/]*)/` : (the group, the text after the `/`).  The first character may be
    anything but `P` — also a `/` or a newline. -/
def startGroup : List Char → Option (List Char × List Char)
  | [] => none
  | x :: xs => if x = 'P' then none else (toSlash xs).map fun (a, b) => (x :: a, b)

/-- `.*/(?P<end>[^P].*)$`, the `.*` greedy: (what `.*` consumed, the `end` group).  The character
    in hand is first given to `.*`; only if no later `/` works out is it tried as the `/`. -/
def lastSlash : List Char → Option (List Char × List Char)
  | [] => none
  | c :: cs =>
    if c = '\n' then none
    else
      match lastSlash cs with
      | some (a, e) => some (c :: a, e)
      | none => if c = '/' then (endGroup cs).map fun e => ([], e) else none

/-- What `groupdict()` holds besides `reps`. -/
structure Groups where
  start : Option (List Char)
  end_ : Option (List Char)
  intv : Option (List Char)
  deriving DecidableEq, Repr, Inhabited

/-- Pattern 1 after the head: `(?P<start>[^P][^/]*)/(?P<end>[^P].*)$`. -/
def regex1 (rest : List Char) : Option Groups :=
  match startGroup rest with
  | some (st, after) => (endGroup after).map fun en => ⟨some st, some en, none⟩
  | none => none

/-- Pattern 2 after the head: `(?P<start>[^P][^/]*)/(?P<intv>P.+)$`. -/
def regex2 (rest : List Char) : Option Groups :=
  match startGroup rest with
  | some (st, after) => (intvGroup after).map fun iv => ⟨some st, none, some iv⟩
  | none => none

/-- Pattern 3 after the head: `(?P<intv>P.+)/(?P<end>[^P].*)$`. -/
def regex3 (rest : List Char) : Option Groups :=
  match rest with
  | 'P' :: c :: cs =>
    if c = '\n' then none
    else (lastSlash cs).map fun (a, e) => ⟨none, some e, some ('P' :: c :: a)⟩
  | _ => none

/-- `for regex in self.RECURRENCE_REGEXES: result = regex.search(expression); if not result: continue`
    (the head is the same in all three, so it is matched once). -/
def firstRegex (rest : List Char) : Option Groups :=
  match regex1 rest with
  | some g => some g
  | none =>
    match regex2 rest with
    | some g => some g
    | none => regex3 rest

/-! ## `TimeRecurrenceParser.parse` -/

/-- A three-way outcome. -/
inductive Res (α : Type) where
  | ok (a : α)
  /-- the Python raised (a `ValueError`-derived exception) -/
  | fail
  /-- no claim -/
  | outside
  deriving DecidableEq, Repr

/-- Both pieces; a failure on either side wins over `outside`. -/
def Res.both {α β : Type} : Res α → Res β → Res (α × β)
  | .fail, _ => .fail
  | _, .fail => .fail
  | .outside, _ => .outside
  | _, .outside => .outside
  | .ok a, .ok b => .ok (a, b)

/-- `self.timepoint_parser.parse(group)` if the group is in the pattern: the point and the
    `num_expanded_year_digits` it carries. -/
def parsePoint (cfg : Cfg) : Option (List Char) → Res (Option (TP × Nat))
  | none => .ok none
  | some s =>
    match Text.parse cfg s false with
    | none => .fail
    | some x =>
      match x.toTP? with
      | some p => .ok (some (p, x.ned))
      | none => .outside

/-- `self.duration_parser.parse(group)` if the group is in the pattern. -/
def parseIntv (m : Mode) : Option (List Char) → Res (Option Dur)
  | none => .ok none
  | some s =>
    match DurText.parse m s with
    | .ok d => .ok (some d)
    | .syntaxErr => .fail
    | .valueErr => .fail
    | .outside => .outside

/-- `int(result_map["reps"])` for a run of ASCII digits. -/
def repsVal : Option (List Char) → Option Int
  | none => none
  | some ds => some (DurText.digitsVal ds : Int)

/-- A parsed recurrence with the expanded-year digits of its start and second/end points. -/
structure Parsed where
  val : Rec
  nedS : Nat
  nedE : Nat
  deriving DecidableEq, Repr

/-- `TimeRecurrenceParser(timepoint_parser, duration_parser).parse(expression)`; `cfg` is the
    configuration of the time point parser, `cfg.mode` the calendar mode. -/
def parseRecFull (cfg : Cfg) (s : List Char) : Res Parsed :=
  match header s with
  | .nomatch => .fail
  | .outside => .outside
  | .ok reps rest =>
    match firstRegex rest with
    | none => .fail
    | some g =>
      match (parsePoint cfg g.start).both ((parsePoint cfg g.end_).both (parseIntv cfg.mode g.intv)) with
      | .fail => .fail
      | .outside => .outside
      | .ok (st, en, iv) =>
        match mkRec cfg.mode (repsVal reps) (st.map (·.1)) iv (en.map (·.1)) with
        | none => .fail
        | some r =>
          let nedS := (st.map (·.2)).getD 0
          .ok ⟨r, nedS, if iv.isNone && repsVal reps == some 1 then nedS
                        else (en.map (·.2)).getD 0⟩

/-- `parse` with failure (and anything outside the model) as `none`. -/
def parseRec (cfg : Cfg) (s : List Char) : Option Rec :=
  match parseRecFull cfg s with
  | .ok p => some p.val
  | _ => none

/-- The configuration of `TimeRecurrenceParser()`'s default `TimePointParser()`: two expanded year
    digits, extended and basic notation, no truncated forms, a zone-less text takes the local
    offset `(lh, lmi)` of the process. -/
def defaultCfg (m : Mode) (lh lmi : Int) : Cfg :=
  { pt := defaultTables, allowTruncated := false, zone := .localOffset lh lmi, mode := m }

end IsoDT.RecText
