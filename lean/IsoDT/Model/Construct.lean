/-
  IsoDT.Model.Construct — `TimePoint.__init__` for non-truncated points with integral arguments
  (conflict rules, defaults, `TimeZone(...)`, `_check_bounds`).  `none` = `BadInputError`.
-/
import IsoDT.Model.TimePoint

namespace IsoDT.Model
open IsoDT
open IsoDT.Spec (Date TZ TP)

/-- Keyword arguments of `TimePoint(...)` (each may be omitted). -/
structure TPArgs where
  year : Option Int
  month : Option Int
  week : Option Int
  doy : Option Int
  dom : Option Int
  dow : Option Int
  hh : Option Int
  mi : Option Int
  ss : Option Int
  tzh : Option Int
  tzm : Option Int
  deriving DecidableEq, Repr, Inhabited

/-- Python truthiness of an optional int: `None` and `0` are falsy. -/
def truthy : Option Int → Bool
  | some x => x != 0
  | none => false

/-- `_bounds_checker(value, name, min_val, max_val)` on an optional value: `None` passes. -/
def inRange (v : Option Int) (lo hi : Int) : Bool :=
  match v with
  | none => true
  | some x => decide (lo ≤ x ∧ x ≤ hi)

/-- `TimeZone(hours=h, minutes=mi)` with either possibly `None` (then 0, unchecked). -/
def mkTZOpt (m : Mode) (h mi : Option Int) : Option TZ :=
  match h with
  | some hv =>
    if hv < -99 ∨ hv > 99 then none
    else match mi with
      | none => some ⟨hv, 0⟩
      | some mv =>
        let lo := if hv > 0 then 0 else 1 - (calOf m).minutesInHour
        let hi := if hv < 0 then 0 else (calOf m).minutesInHour - 1
        if mv < lo ∨ mv > hi then none else some ⟨hv, mv⟩
  | none =>
    match mi with
    | none => some ⟨0, 0⟩
    | some mv =>
      if mv < 1 - (calOf m).minutesInHour ∨ mv > (calOf m).minutesInHour - 1 then none else some ⟨0, mv⟩

/-- `TimePoint._check_bounds` (all the `_bounds_checker` calls; they raise the same error class, so
    only the conjunction matters). -/
def boundsOk (m : Mode) (y : Int) (month dom week doy dow : Option Int) (hh mi ss : Int) : Bool :=
  inRange month 1 (calOf m).monthsInYear &&
  inRange dom 1 (match month with
    | some mo => daysInMonth m y mo
    | none => (calOf m).maxDaysInMonth) &&
  inRange week 1 (weeksInYear m y) &&
  inRange doy 1 (daysInYear m y) &&
  inRange dow 1 (calOf m).daysInWeek &&
  decide (0 ≤ hh ∧ hh ≤ (calOf m).hoursInDay) &&
  (if hh = (calOf m).hoursInDay then decide (mi = 0 ∧ ss = 0)
   else decide (0 ≤ mi ∧ mi < (calOf m).minutesInHour ∧ 0 ≤ ss ∧ ss < (calOf m).secondsInMinute))

/-- The representation the object ends up in. -/
def finishTP (y : Int) (month dom doy week dow : Option Int) (hh mi ss : Int) (tz : TZ) : Option TP :=
  match month, dom, doy, week, dow with
  | some mo, some d, none, none, none => some ⟨.cal y mo d, hh, mi, ss, tz⟩
  | none, none, some n, none, none => some ⟨.ord y n, hh, mi, ss, tz⟩
  | none, none, none, some w, some d => some ⟨.week y w d, hh, mi, ss, tz⟩
  | _, _, _, _, _ => none      -- mixed leftovers: never pass the conflict rules and the bounds (C09)

def dflt (cond : Bool) (v : Option Int) : Option Int :=
  if cond then (match v with | none => some 1 | x => x) else v

/-- `TimePoint(**args)` (non-truncated, integral arguments). -/
def mkTP (m : Mode) (a : TPArgs) : Option TP :=
  match a.year with
  | none => none                                   -- "Missing input: year"
  | some y =>
    match mkTZOpt m a.tzh a.tzm with
    | none => none
    | some tz =>
      let monthSpec := truthy a.month || truthy a.dom
      let weekSpec := truthy a.week || truthy a.dow
      if (monthSpec && weekSpec) || (monthSpec && a.doy.isSome) || (weekSpec && a.doy.isSome) then none
      else
        let month := dflt (a.doy.isNone && !weekSpec) a.month
        let dom := dflt (a.doy.isNone && !weekSpec) a.dom
        let week := dflt (a.doy.isNone && weekSpec) a.week
        let dow := dflt (a.doy.isNone && weekSpec) a.dow
        if boundsOk m y month dom week a.doy dow (a.hh.getD 0) (a.mi.getD 0) (a.ss.getD 0) then
          finishTP y month dom a.doy week dow (a.hh.getD 0) (a.mi.getD 0) (a.ss.getD 0) tz
        else none

/-- The keyword arguments that spell a point in full. -/
def argsOf (p : TP) : TPArgs :=
  match p.date with
  | .cal y mo d => ⟨some y, some mo, none, none, some d, none, some p.hh, some p.mi, some p.ss, some p.tz.h, some p.tz.mi⟩
  | .ord y n => ⟨some y, none, none, some n, none, none, some p.hh, some p.mi, some p.ss, some p.tz.h, some p.tz.mi⟩
  | .week y w d => ⟨some y, none, some w, none, none, some d, some p.hh, some p.mi, some p.ss, some p.tz.h, some p.tz.mi⟩

end IsoDT.Model
