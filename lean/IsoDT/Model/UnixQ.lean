/-
  IsoDT.Model.UnixQ — the Unix-epoch conversions of data.py over exact rationals:

  * `fromUnixQ`      — `get_timepoint_from_seconds_since_unix_epoch(num_seconds, utc)`:
                       `reference_timepoint = TimePoint(**UNIX_EPOCH_DATE_TIME_REFERENCE_PROPERTIES)`,
                       `if not utc: reference_timepoint = reference_timepoint.to_local_time_zone()`,
                       `return reference_timepoint + Duration(seconds=float(num_seconds))`;
  * `secondsSinceQ`  — `TimePoint.seconds_since_unix_epoch`:
                       `days, seconds = (self - reference_timepoint).get_days_and_seconds()`,
                       `str(int(CALENDAR.SECONDS_IN_DAY * days + seconds))`
                       (`int()` of a float truncates toward zero).

  * `unixTextQ`      — `TimePoint.strftime("%s")` of a point with decimal slots: the week-date to
                       calendar-date conversion of `TimePointDumper.strftime`, then the property above
                       printed with `%(seconds_since_unix_epoch)s`.

  All run the statements of the Python through the rational-slot models of `TimePoint.__add__`,
  `to_time_zone`, `__sub__` (`Model/TimePointQ`, `TimePointQ2`) and `Duration.get_days_and_seconds`
  (`Model/DurationQ`); they say what the algorithm does, nothing about binary64 rounding.
-/
import IsoDT.Model.LocalTZ
import IsoDT.Model.Strftime
import IsoDT.Model.TimePointQ2
import IsoDT.Model.DurationQ

namespace IsoDT.Model
open IsoDT
open IsoDT.Spec (Date TZ TP)

/-- The Unix epoch reference point: an integer-slot point (`TimePoint(year=1970, …)` has
    `hour_of_day = minute_of_hour = second_of_minute = 0` by default, all three slots present). -/
def unixEpochQ : TPQ := TPQ.ofTP unixEpoch

/-- `get_timepoint_from_seconds_since_unix_epoch(x, utc)`; `z = none` for `utc=True`, else the
    local zone (`timezone.get_local_time_zone()`, a parameter). -/
def fromUnixQ (m : Mode) (x : Rat) (z : Option TZ) : Option TPQ :=
  match z with
  | none => addExactQ m unixEpochQ ⟨0, 0, 0, x⟩
  | some z => (toTimeZoneQ m unixEpochQ z).bind fun r => addExactQ m r ⟨0, 0, 0, x⟩

/-- `TimePoint.seconds_since_unix_epoch` (as an integer; the Python returns its `str`). -/
def secondsSinceQ (m : Mode) (p : TPQ) : Option Int :=
  (subTPQ m p unixEpochQ).map fun d =>
    -- `Duration(days=…, hours=…, minutes=…, seconds=…)`, possibly times -1: the unit form
    let das := (DurationQ.units 0 0 d.days d.h d.mi d.s).daysAndSeconds m
    truncQ ((((calOf m).secondsInDay : Int) : Rat) * ((das.1 : Int) : Rat) + das.2)

/-- `if not timepoint.truncated and timepoint.get_is_week_date(): timepoint.to_calendar_date()`
    (`TimePointDumper.strftime`), on a rational-slot point: the date alone is converted. -/
def forDumpQ (m : Mode) (p : TPQ) : Option TPQ :=
  if p.date.rep = 2 then (convert m 0 p.date).map fun dt => { p with date := dt } else some p

/-- `p.strftime("%s")` for a point in any precision form. -/
def unixTextQ (m : Mode) (p : TPQ) : Option (List Char) :=
  (forDumpQ m p).bind fun p' => (secondsSinceQ m p').map Strf.showInt

end IsoDT.Model
