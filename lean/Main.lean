/-
  Line-protocol driver for the correspondence check: one operation per input line, one
  canonical answer per output line.  Imports only Model + Gen (no proofs, no Mathlib), so it is
  compiled to a native executable.
-/
import IsoDT.Model.Calendar
import IsoDT.Model.TimePoint
import IsoDT.Model.Duration
import IsoDT.Model.LocalTZ
import IsoDT.Model.Recurrence
import IsoDT.Model.Truncated
import IsoDT.Driver.Text
import IsoDT.Driver.DurText
import IsoDT.Driver.Cli
import IsoDT.Driver.Strftime
import IsoDT.Driver.Construct
import IsoDT.Driver.RatOps
import IsoDT.Driver.RatOps2
import IsoDT.Driver.RatOps3
import IsoDT.Driver.DurQ
import IsoDT.Driver.SpecOps
import IsoDT.Driver.RecMM
import IsoDT.Driver.TruncProps
import IsoDT.Driver.Strftime2
import IsoDT.Driver.Cli2
import IsoDT.Driver.DurTextQ
import IsoDT.Driver.RecText
import IsoDT.Driver.TruncQ
import IsoDT.Driver.ConstructTrunc
import IsoDT.Driver.StrptimeZone
import IsoDT.Driver.RecurrenceQ
import IsoDT.Driver.DurTextAlt
import IsoDT.Driver.RecurrenceQFirst

open IsoDT IsoDT.Model
open IsoDT.Spec (Date TZ TP)

def ints? (l : List String) : Option (List Int) := l.mapM String.toInt?

def showO3 : Option (Int × Int × Int) → String
  | some (a, b, c) => s!"{a} {b} {c}"
  | none => "err"
def showO2 : Option (Int × Int) → String
  | some (a, b) => s!"{a} {b}"
  | none => "err"

def calOp (op : String) (m : Mode) (a : List Int) : String :=
  match op, a with
  | "diy", [y] => toString (daysInYear m y)
  | "dim", [y, mo] => toString (daysInMonth m y mo)
  | "dimb", [lp, mo] => toString (daysInMonthB m (lp != 0) mo)
  | "range", [s, e] => toString (daysInYearRange m s e)
  | "wstart", [y] => let r := weekStartCal m y; s!"{r.1} {r.2.1} {r.2.2}"
  | "owstart", [y] => let r := ordWeekStart m y; s!"{r.1} {r.2}"
  | "wiy", [y] => toString (weeksInYear m y)
  | "c2o", [y, mo, d] => showO2 (ordFromCal m y mo d)
  | "o2c", [y, doy] => showO3 (calFromOrd m y doy)
  | "w2c", [y, w, d] => showO3 (calFromWeek m y w d)
  | "c2w", [y, mo, d] => showO3 (weekFromCal m y mo d)
  | "w2o", [y, w, d] => showO2 (ordFromWeek m y w d)
  | "o2w", [y, doy] => showO3 (weekFromOrd m y doy)
  | _, _ => "bad-op"

def viewsOp (m : Mode) (rep : String) (a : List Int) : String :=
  let c : Option (Int × Int × Int) := match rep, a with
    | "c", [y, mo, d] => some (y, mo, d)
    | "o", [y, doy] => calFromOrd m y doy
    | "w", [y, w, d] => calFromWeek m y w d
    | _, _ => none
  let o : Option (Int × Int) := match rep, a with
    | "c", [y, mo, d] => ordFromCal m y mo d
    | "o", [y, doy] => some (y, doy)
    | "w", [y, w, d] => ordFromWeek m y w d
    | _, _ => none
  let w : Option (Int × Int × Int) := match rep, a with
    | "c", [y, mo, d] => weekFromCal m y mo d
    | "o", [y, doy] => weekFromOrd m y doy
    | "w", [y, w, d] => some (y, w, d)
    | _, _ => none
  s!"{showO3 c} | {showO2 o} | {showO3 w}"

def dispatch0 (toks : List String) : String :=
  match toks with
  | "views" :: mode :: rep :: rest =>
    match Mode.ofName? mode, ints? rest with
    | some m, some a => viewsOp m rep a
    | _, _ => "bad-op"
  | ["leap", y] => match y.toInt? with
    | some y => toString (isLeapYear y)
    | none => "bad-op"
  | op :: mode :: rest =>
    match Mode.ofName? mode, ints? rest with
    | some m, some a => calOp op m a
    | _, _ => "bad-op"
  | _ => "bad-op"

/-- Parse `rep y a b hh mi ss tzh tzm` (9 tokens; `b` ignored for ordinal dates). -/
def parseTP (toks : List String) : Option (TP × List String) :=
  match toks with
  | rep :: rest =>
    match ints? (rest.take 8) with
    | some [y, a, b, hh, mi, ss, tzh, tzm] =>
      let date? : Option Date := match rep with
        | "c" => some (.cal y a b) | "o" => some (.ord y a) | "w" => some (.week y a b) | _ => none
      date?.map fun date => ({ date := date, hh := hh, mi := mi, ss := ss, tz := ⟨tzh, tzm⟩ }, rest.drop 8)
    | _ => none
  | _ => none

def parseDur (toks : List String) : Option (Dur × List String) :=
  match toks with
  | "W" :: w :: rest => w.toInt?.map fun w => (Dur.weeks w, rest)
  | "U" :: rest =>
    match ints? (rest.take 6) with
    | some [y, mo, d, h, mi, s] => some (Dur.units y mo d h mi s, rest.drop 6)
    | _ => none
  | _ => none

def showDate : Date → String
  | .cal y mo d => s!"c {y} {mo} {d}"
  | .ord y doy => s!"o {y} {doy} 0"
  | .week y w d => s!"w {y} {w} {d}"

def showTP (p : TP) : String :=
  s!"{showDate p.date} {p.hh} {p.mi} {p.ss} {p.tz.h} {p.tz.mi}"

def showOTP : Option TP → String
  | some p => showTP p
  | none => "err"

def showDur : Dur → String
  | .weeks w => s!"W {w}"
  | .units y mo d h mi s => s!"U {y} {mo} {d} {h} {mi} {s}"

def showODur : Option Dur → String
  | some d => showDur d
  | none => "err"

def showInts (l : List Int) : String := " ".intercalate (l.map toString)

def optInt? (s : String) : Option (Option Int) := if s == "_" then some none else s.toInt?.map some

/-- `week dow dom doy hh mi ss tzh tzm`, each an integer or `_`. -/
def parseTrunc (toks : List String) : Option Trunc :=
  match toks.mapM optInt? with
  | some [week, dow, dom, doy, hh, mi, ss, tzh, tzm] =>
    let tz : Option TZ := match tzh, tzm with
      | some h, some x => some ⟨h, x⟩
      | some h, none => some ⟨h, 0⟩
      | none, some x => some ⟨0, x⟩
      | none, none => none
    some ⟨week, dow, dom, doy, hh, mi, ss, tz⟩
  | _ => none

def tpOp (op : String) (m : Mode) (rest : List String) : String :=
  match parseTP rest with
  | none => "bad-op"
  | some (p, rest) =>
    match op with
    | "add" => match parseDur rest with
      | some (d, _) => showOTP (addDur m p d)
      | none => "bad-op"
    | "sub" => match parseDur rest with
      | some (d, _) => showOTP (subDur m p d)
      | none => "bad-op"
    | "addmonths" => match ints? rest with
      | some [n] => showOTP (addMonths m p n)
      | _ => "bad-op"
    | "addtrunc" => match parseTrunc rest with
      | some t => showOTP (addTruncTP24 m p t)
      | none => "bad-op"
    | "tick" => showOTP (tickOver m p)
    | "tz" => match ints? rest with
      | some [h, mi] => showOTP (toTimeZone m p ⟨h, mi⟩)
      | _ => "bad-op"
    | "hash" => match hashKey m p with
      | some l => showInts l
      | none => "err"
    | "cmp" => match parseTP rest with
      | some (q, _) => match cmp m p q with
        | some c => toString c
        | none => "err"
      | none => "bad-op"
    | "hasheq" => match parseTP rest with
      | some (q, _) => match hashKey m p, hashKey m q with
        | some k1, some k2 => toString (k1 == k2)
        | _, _ => "err"
      | none => "bad-op"
    | "subtp" => match parseTP rest with
      | some (q, _) => showODur (subTP m p q)
      | none => "bad-op"
    | _ => "bad-op"

def b01 (b : Bool) : String := if b then "1" else "0"

def durOp (op : String) (m : Mode) (rest : List String) : String :=
  if op == "dmk" then
    match ints? rest with
    | some [y, mo, w, d, h, mi, s] => showDur (mkDur m y mo w d h mi s)
    | _ => "bad-op"
  else
  match parseDur rest with
  | none => "bad-op"
  | some (a, rest) =>
    match op with
    | "dadd" => match parseDur rest with
      | some (b, _) => showDur (Dur.add m a b)
      | none => "bad-op"
    | "dsub" => match parseDur rest with
      | some (b, _) => showDur (Dur.sub m a b)
      | none => "bad-op"
    | "dmul" => match ints? rest with
      | some [n] => showDur (a.mul n)
      | _ => "bad-op"
    | "dfdiv" => match ints? rest with
      | some [n] => showODur (a.floordiv n)
      | _ => "bad-op"
    | "dabs" => showDur a.abs
    | "dtodays" => showDur (a.toDays m)
    | "dtoweeks" => showDur (a.toWeeks m)
    | "ddas" => let r := a.daysAndSeconds m; s!"{r.1} {r.2}"
    | "dsecs" => toString (a.seconds m)
    | "dbool" => b01 a.nonzero
    | "deq" => match parseDur rest with
      | some (b, _) => b01 (Dur.eq m a b)
      | none => "bad-op"
    | "dhasheq" => match parseDur rest with
      | some (b, _) => b01 (Dur.hashKey m a == Dur.hashKey m b)
      | none => "bad-op"
    | "dcmp" => match parseDur rest with
      | some (b, _) => s!"{b01 (Dur.lt m a b)} {b01 (Dur.le m a b)} {b01 (Dur.gt m a b)} {b01 (Dur.ge m a b)}"
      | none => "bad-op"
    | _ => "bad-op"

def durOps : List String := ["dmk", "dadd", "dsub", "dmul", "dfdiv", "dabs", "dtodays", "dtoweeks", "ddas",
  "dsecs", "dbool", "deq", "dhasheq", "dcmp"]

/-- Parse `<reps|_> <S tp | _> <D dur | _> <E tp | _>` and build the recurrence. -/
def parseRecArgs (toks : List String) :
    Option ((Option Int × Option TP × Option Dur × Option TP) × List String) :=
  match toks with
  | repsTok :: rest =>
    let reps? : Option (Option Int) := if repsTok == "_" then some none else repsTok.toInt?.map some
    match reps? with
    | none => none
    | some reps =>
      let st : Option (Option TP × List String) := match rest with
        | "_" :: r => some (none, r)
        | "S" :: r => (parseTP r).map fun x => (some x.1, x.2)
        | _ => none
      match st with
      | none => none
      | some (start, rest) =>
        let du : Option (Option Dur × List String) := match rest with
          | "_" :: r => some (none, r)
          | "D" :: r => (parseDur r).map fun x => (some x.1, x.2)
          | _ => none
        match du with
        | none => none
        | some (dur, rest) =>
          let en : Option (Option TP × List String) := match rest with
            | "_" :: r => some (none, r)
            | "E" :: r => (parseTP r).map fun x => (some x.1, x.2)
            | _ => none
          match en with
          | none => none
          | some (end_, rest) => some ((reps, start, dur, end_), rest)
  | [] => none

def showOptTP : Option TP → String
  | some p => showTP p
  | none => "_"

def showRec (r : Rec) : String :=
  let reps := match r.reps with | some n => toString n | none => "_"
  let dur := match r.dur with | some d => showDur d | none => "_"
  s!"{reps} ; {showOptTP r.start} ; {dur} ; {showOptTP r.end_} ; {r.fmt}"

def showTPs (l : List TP) : String := " | ".intercalate (l.map showTP)

def recOp (op : String) (m : Mode) (rest : List String) : String :=
  -- ops with a leading count argument
  let (k, rest) : Nat × List String :=
    if ["riter", "rvalid", "rfirst", "ritem"].contains op then
      match rest with
      | kt :: r => (kt.toNat?.getD 0, r)
      | [] => (0, [])
    else (0, rest)
  match parseRecArgs rest with
  | none => "bad-op"
  | some ((reps, start, dur, end_), rest) =>
    match mkRec m reps start dur end_ with
    | none => "err"
    | some r =>
      match op with
      | "rmk" => showRec r
      | "riter" => showTPs (iter m r k)
      | "ritem" => match getItem m r k with
        | some p => showTP p
        | none => "IndexError"
      | "rvalid" => match parseTP rest with
        | some (p, _) => b01 (getIsValid m r p k)
        | none => "bad-op"
      | "rnext" => match parseTP rest with
        | some (p, _) => showOptTP (getNext m r p)
        | none => "bad-op"
      | "rprev" => match parseTP rest with
        | some (p, _) => showOptTP (getPrev m r p)
        | none => "bad-op"
      | "rfirst" => match parseTP rest with
        | some (p, _) => showOptTP (getFirstAfter m r p k)
        | none => "bad-op"
      | "rshift" => match parseDur rest with
        | some (d, _) => match r.shift m d with
          | some r' => showRec r'
          | none => "err"
        | none => "bad-op"
      | "req" | "rhasheq" => match parseRecArgs rest with
        | some ((reps2, start2, dur2, end2), _) =>
          match mkRec m reps2 start2 dur2 end2 with
          | some r2 => if op == "req" then b01 (Rec.eq m r r2) else b01 (Rec.hashKey m r == Rec.hashKey m r2)
          | none => "err"
        | none => "bad-op"
      | _ => "bad-op"

def recOps : List String := ["rmk", "riter", "ritem", "rvalid", "rnext", "rprev", "rfirst", "rshift", "req",
  "rhasheq"]

def tpOps : List String := ["add", "sub", "addmonths", "tick", "tz", "hash", "hasheq", "cmp", "subtp", "addtrunc"]

/-- EXTENSION POINT for further driver modules (`IsoDT/Driver/*.lean`): each exports
    `dispatch : List String → Option String` (none = not my op); chain them here with `<|>`. -/
def extDispatch (toks : List String) : Option String :=
  (none : Option String)
  <|> IsoDT.Driver.Cli.dispatch toks
  <|> IsoDT.Driver.Construct.dispatch toks
  <|> IsoDT.Driver.DurText.dispatch toks
  <|> IsoDT.Driver.Text.dispatch toks
  <|> IsoDT.Driver.Strftime.dispatch toks
  <|> IsoDT.Driver.RatOps.dispatch toks
  <|> IsoDT.Driver.RatOps2.dispatch toks
  <|> IsoDT.Driver.RatOps3.dispatch toks
  <|> IsoDT.Driver.DurQ.dispatch toks
  <|> IsoDT.Driver.SpecOps.dispatch toks
  <|> IsoDT.Driver.RecMM.dispatch toks
  <|> IsoDT.Driver.TruncProps.dispatch toks
  <|> IsoDT.Driver.Strftime2.dispatch toks
  <|> IsoDT.Driver.Cli2.dispatch toks
  <|> IsoDT.Driver.DurTextQ.dispatch toks
  <|> IsoDT.Driver.RecText.dispatch toks
  <|> IsoDT.Driver.TruncQ.dispatch toks
  <|> IsoDT.Driver.ConstructTrunc.dispatch toks
  <|> IsoDT.Driver.StrptimeZone.dispatch toks
  <|> IsoDT.Driver.RecurrenceQ.dispatch toks
  <|> IsoDT.Driver.DurTextAlt.dispatch toks
  <|> IsoDT.Driver.RecurrenceQFirst.dispatch toks
  -- <|> IsoDT.Driver.Foo.dispatch toks

def dispatch (toks : List String) : String :=
  match extDispatch toks with
  | some out => out
  | none =>
  match toks with
  | ["localtz", tz, alt, dl, dst] =>
    match ints? [tz, alt, dl, dst] with
    | some [tz, alt, dl, dst] => let r := localTZ tz alt (dl != 0) dst; s!"{r.1} {r.2}"
    | _ => "bad-op"
  | ["localtzfmt", tz, alt, dl, dst] =>
    match ints? [tz, alt, dl, dst] with
    | some [tz, alt, dl, dst] =>
      let r := localTZ tz alt (dl != 0) dst
      s!"{formatLocalTZ 0 r} {formatLocalTZ 1 r} {formatLocalTZ 2 r}"
    | _ => "bad-op"
  | ["fromunix", mode, n, "utc"] =>
    match Mode.ofName? mode, n.toInt? with
    | some m, some n => showOTP (fromUnix m n none)
    | _, _ => "bad-op"
  | ["fromunix", mode, n, h, mi] =>
    match Mode.ofName? mode, ints? [n, h, mi] with
    | some m, some [n, h, mi] => showOTP (fromUnix m n (some ⟨h, mi⟩))
    | _, _ => "bad-op"
  | "since" :: mode :: rest =>
    match Mode.ofName? mode, parseTP rest with
    | some m, some (p, _) => match secondsSinceUnixEpoch m p with
      | some n => toString n
      | none => "err"
    | _, _ => "bad-op"
  | ["mktz", mode, h, mi] =>
    match Mode.ofName? mode, h.toInt?, mi.toInt? with
    | some m, some h, some mi => match mkTZ m h mi with
      | some z => s!"{z.h} {z.mi}"
      | none => "err"
    | _, _, _ => "bad-op"
  | op :: mode :: rest =>
    if tpOps.contains op then
      match Mode.ofName? mode with
      | some m => tpOp op m rest
      | none => "bad-op"
    else if durOps.contains op then
      match Mode.ofName? mode with
      | some m => durOp op m rest
      | none => "bad-op"
    else if recOps.contains op then
      match Mode.ofName? mode with
      | some m => recOp op m rest
      | none => "bad-op"
    else dispatch0 toks
  | _ => dispatch0 toks

partial def loop (hin : IO.FS.Stream) (hout : IO.FS.Stream) : IO Unit := do
  let line ← hin.getLine
  if line.isEmpty then return ()
  let toks := (line.trimAscii.toString.splitOn " ").filter (· ≠ "")
  hout.putStrLn (dispatch toks)
  loop hin hout

def main : IO Unit := do
  let hin ← IO.getStdin
  let hout ← IO.getStdout
  loop hin hout
