/-
  Line-protocol driver for the correspondence check: one operation per input line, one
  canonical answer per output line.  Imports only Model + Gen (no proofs, no Mathlib), so it is
  compiled to a native executable.
-/
import IsoDT.Model.Calendar

open IsoDT IsoDT.Model

def ints? (l : List String) : Option (List Int) := l.mapM String.toInt?

def showO3 : Option (Int × Int × Int) → String
  | some (a, b, c) => s!"{a} {b} {c}"
  | none => "err"
def showO2 : Option (Int × Int) → String
  | some (a, b) => s!"{a} {b}"
  | none => "err"

def calOp (op : String) (m : Mode) (a : List Int) : String :=
  match op, a with
  | "diy", [y] => toString (daysInYear m y)
  | "dim", [y, mo] => toString (daysInMonth m y mo)
  | "dimb", [lp, mo] => toString (daysInMonthB m (lp != 0) mo)
  | "range", [s, e] => toString (daysInYearRange m s e)
  | "wstart", [y] => let r := weekStartCal m y; s!"{r.1} {r.2.1} {r.2.2}"
  | "owstart", [y] => let r := ordWeekStart m y; s!"{r.1} {r.2}"
  | "wiy", [y] => toString (weeksInYear m y)
  | "c2o", [y, mo, d] => showO2 (ordFromCal m y mo d)
  | "o2c", [y, doy] => showO3 (calFromOrd m y doy)
  | "w2c", [y, w, d] => showO3 (calFromWeek m y w d)
  | "c2w", [y, mo, d] => showO3 (weekFromCal m y mo d)
  | "w2o", [y, w, d] => showO2 (ordFromWeek m y w d)
  | "o2w", [y, doy] => showO3 (weekFromOrd m y doy)
  | _, _ => "bad-op"

def viewsOp (m : Mode) (rep : String) (a : List Int) : String :=
  let c : Option (Int × Int × Int) := match rep, a with
    | "c", [y, mo, d] => some (y, mo, d)
    | "o", [y, doy] => calFromOrd m y doy
    | "w", [y, w, d] => calFromWeek m y w d
    | _, _ => none
  let o : Option (Int × Int) := match rep, a with
    | "c", [y, mo, d] => ordFromCal m y mo d
    | "o", [y, doy] => some (y, doy)
    | "w", [y, w, d] => ordFromWeek m y w d
    | _, _ => none
  let w : Option (Int × Int × Int) := match rep, a with
    | "c", [y, mo, d] => weekFromCal m y mo d
    | "o", [y, doy] => weekFromOrd m y doy
    | "w", [y, w, d] => some (y, w, d)
    | _, _ => none
  s!"{showO3 c} | {showO2 o} | {showO3 w}"

def dispatch (toks : List String) : String :=
  match toks with
  | "views" :: mode :: rep :: rest =>
    match Mode.ofName? mode, ints? rest with
    | some m, some a => viewsOp m rep a
    | _, _ => "bad-op"
  | ["leap", y] => match y.toInt? with
    | some y => toString (isLeapYear y)
    | none => "bad-op"
  | op :: mode :: rest =>
    match Mode.ofName? mode, ints? rest with
    | some m, some a => calOp op m a
    | _, _ => "bad-op"
  | _ => "bad-op"

partial def loop (hin : IO.FS.Stream) (hout : IO.FS.Stream) : IO Unit := do
  let line ← hin.getLine
  if line.isEmpty then return ()
  let toks := (line.trimAscii.toString.splitOn " ").filter (· ≠ "")
  hout.putStrLn (dispatch toks)
  loop hin hout

def main : IO Unit := do
  let hin ← IO.getStdin
  let hout ← IO.getStdout
  loop hin hout
