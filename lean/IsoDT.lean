import IsoDT.Basic
import IsoDT.Gen.Calendar
import IsoDT.Spec.Calendar
import IsoDT.Model.Calendar
import IsoDT.Model.TimePoint
import IsoDT.Props.C01
import IsoDT.Props.C03
