import IsoDT.Basic
import IsoDT.Gen.Calendar
import IsoDT.Spec.Calendar
import IsoDT.Model.Calendar
import IsoDT.Props.C03
